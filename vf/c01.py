"""C01: data-processing instructions compute the architectural result, flags and PC; frame."""
import os

from symx import stubs
from vf import famcheck, runner

TABLES = ['isa_dp']

QUICK_ANCHORS = ['AdcRegisterA1', 'AdcRegisterT1', 'AdcRegisterT2', 'AddRegisterShiftedRegisterA1', 'SubImmediateArmA1',
                 'MovRegisterThumbT1', 'MovRegisterThumbT2', 'MovRegisterThumbT3', 'LslRegisterA1', 'LslRegisterT1',
                 'LslRegisterT2', 'AddImmediateThumbT3']


# rows whose PC-write rule differs between ARMv6 and ARMv7 (ALUWritePC interworks from ARMv7 in ARM state)
ARCH6_EXTRA = ['MovRegisterArmA1', 'AddRegisterArmA1', 'SubRegisterA1', 'AndImmediateA1', 'MovImmediateA1',
               'AddSpPlusRegisterArmA1', 'RsbRegisterShiftedRegisterA1', 'EorRegisterA1']


def units(tier, seed=0):
    if tier == 'quick':
        us = famcheck.family_units({'dp'}, [7], TABLES)
        us += famcheck.family_units({'dp'}, [6], TABLES, only=QUICK_ANCHORS + ARCH6_EXTRA)
    else:
        us = famcheck.family_units({'dp'}, [4, 5, 6, 7], TABLES) + \
            famcheck.family_units({'dp'}, [6], TABLES, sec=False, tag='/nosec')
    # history independence where decode / operand evaluation reads the state: the same concrete instruction is first run
    # from a state with unrelated flags and IT state, the snapshot is re-installed, and the step must still equal the
    # pseudocode ("from any valid machine state" includes states reached after any history)
    from spec.isa import ISA
    PRE = [('MovImmediateA1', {'cond': 14, 'S': 1, '_sb0': 0, 'Rd': 2, 'imm12': 1}),
           ('TeqImmediateA1', {'cond': 14, 'Rn': 3, '_sb0': 0, 'imm12': 0xFF}),
           ('AndImmediateA1', {'cond': 14, 'S': 1, 'Rn': 1, 'Rd': 2, 'imm12': 0x0F}),
           ('AndImmediateT1', {'i': 0, 'S': 1, 'Rn': 1, 'imm3': 0, 'Rd': 2, 'imm8': 0x55}),
           ('AddImmediateThumbT2', {'Rdn': 1, 'imm8': 1}), ('MovImmediateT1', {'Rd': 0, 'imm8': 0}),
           ('LslImmediateT1', {'imm5': 3, 'Rm': 1, 'Rd': 2})]
    for r, fx in PRE:
        if r in ISA:
            us += famcheck.family_units({'dp'}, [7], TABLES, only=[r], tag='/prehistory-same-iset',
                                        prehistory='same-iset', fix=dict(fx))
    return us


META = {
    'explanation': 'Bounded symbolic verification of the real code: for every data-processing encoding row '
                   '(spec/isa_dp.py, transcribed from DDI 0406C A8.8) one symbolic step through the real '
                   'ArmV6.emulate_cycle (fetch from a symbolic memory, decode, from_bitarray, execute, PC increment) '
                   'with every instruction field, all 34 physical registers, NZCVQ/GE/IT/AIF and the mode symbolic; '
                   'per explored path the solver must show post-state == oracle step for every snapshot component '
                   '(all registers of all banks, CPSR, SPSRs, every system register, memory array).',
    'bounds': ['architecture versions enumerated (quick: every row on 7, the anchor rows and the ARM rows with Rd = PC forms on 6; thorough 4,5,6,7 and 6 without security extensions)',
               'MPU off, CPSR.E = 0, J = 0', 'history independence: 7 concrete instructions whose operands depend on the '
               'flags / IT state, each first executed from a state with unrelated flags and IT state', 'inputs on which the architecture is UNPREDICTABLE are excluded '
               '(assumed away by the oracle predicate)', 'no bound on operand values, shift amounts (0..255) or '
               'register numbers'],
    'outside': ['UNPREDICTABLE encodings', 'ThumbEE/Jazelle states', 'MPU/MMU enabled (see C14/C15)'],
    'stubs': stubs.STUBS_DOC,
    'trusted_base': ['z3 5.1.0', 'symx engine', 'oracle transcription spec/', 'summaries re-proved by lemmas each run'],
    'assumptions': ['valid machine state: registers in [0,2^32), CPSR reserved bits 0, valid mode, J=0, '
                    'ITSTATE valid, PC aligned'],
}


def main(tier, seed):
    lem = runner.run_lemmas(('sec', 'nosec') if tier == 'thorough' else ('sec',))
    meta = dict(META)
    meta['checker_cmd'] = './check C01 %s' % tier
    return runner.main_run('C01', tier, units(tier, seed), meta, lemma_results=lem)
