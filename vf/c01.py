"""C01: data-processing instructions compute the architectural result, flags and PC; frame."""
import os

from symx import stubs
from vf import famcheck, runner

TABLES = ['isa_dp']

QUICK_ANCHORS = ['AdcRegisterA1', 'AdcRegisterT1', 'AdcRegisterT2', 'AddRegisterShiftedRegisterA1', 'SubImmediateArmA1',
                 'MovRegisterThumbT1', 'MovRegisterThumbT2', 'MovRegisterThumbT3', 'LslRegisterA1', 'LslRegisterT1',
                 'LslRegisterT2', 'AddImmediateThumbT3']


def units(tier, seed=0):
    if tier == 'quick':
        return famcheck.family_units({'dp'}, [6, 7], TABLES)
    return famcheck.family_units({'dp'}, [4, 5, 6, 7], TABLES) + \
        famcheck.family_units({'dp'}, [6], TABLES, sec=False, tag='/nosec')


META = {
    'explanation': 'Bounded symbolic verification of the real code: for every data-processing encoding row '
                   '(spec/isa_dp.py, transcribed from DDI 0406C A8.8) one symbolic step through the real '
                   'ArmV6.emulate_cycle (fetch from a symbolic memory, decode, from_bitarray, execute, PC increment) '
                   'with every instruction field, all 34 physical registers, NZCVQ/GE/IT/AIF and the mode symbolic; '
                   'per explored path the solver must show post-state == oracle step for every snapshot component '
                   '(all registers of all banks, CPSR, SPSRs, every system register, memory array).',
    'bounds': ['architecture versions enumerated (quick 6,7; thorough 4,5,6,7 and 6 without security extensions)',
               'MPU off, CPSR.E = 0, J = 0', 'inputs on which the architecture is UNPREDICTABLE are excluded '
               '(assumed away by the oracle predicate)', 'no bound on operand values, shift amounts (0..255) or '
               'register numbers'],
    'outside': ['UNPREDICTABLE encodings', 'ThumbEE/Jazelle states', 'MPU/MMU enabled (see C14/C15)'],
    'stubs': stubs.STUBS_DOC,
    'trusted_base': ['z3 5.1.0', 'symx engine', 'oracle transcription spec/', 'summaries re-proved by lemmas each run'],
    'assumptions': ['valid machine state: registers in [0,2^32), CPSR reserved bits 0, valid mode, J=0, '
                    'ITSTATE valid, PC aligned'],
}


def main(tier, seed):
    lem = runner.run_lemmas(('sec', 'nosec') if tier == 'thorough' else ('sec',))
    meta = dict(META)
    meta['checker_cmd'] = './check C01 %s' % tier
    return runner.main_run('C01', tier, units(tier, seed), meta, lemma_results=lem)
