"""C18: stepping is total -- no instruction word or state makes the emulator crash."""
from symx import stubs
from vf import runner, sweep
from vf.runner import UnitSpec

CLAIMS = ['host', 'range', 'align']
SELECTION = {}


def shard_units(tier, claims, mode=None, tag='', arch=7, sec=True, seed=0, always=(), **kw):
    if tier == 'quick':
        # the spread is fixed (VERIF_SEED does not rotate it any more): per-shard cost is heavy-tailed (a rotated
        # spread measured > 4x the wall time of this one), the thorough tier explores every shard, and the
        # change-directed selection below adds the shards a change can affect
        seed = 0
        sh = sweep.quick_sample(sweep.arm_shards(), 24, seed) + sweep.quick_sample(sweep.t16_shards(), 24, seed) + \
            sweep.quick_sample(sweep.t32_shards(), 24, seed)
        have = set(n for n, _ in sh)
        allsh = sweep.arm_shards() + sweep.t16_shards() + sweep.t32_shards()
        for n, pins in allsh:
            if n.split('/list')[0] in always and n not in have:
                sh.append((n, pins))
                have.add(n)
        # change-directed selection (vf/changed.py): shards that executed a source file which differs from the tree
        # the thorough tier last passed on, when that file is specific to few shards (an opcode, a decoder)
        from vf import changed
        extra, info = changed.extra_shards([n for n, _ in allsh])
        SELECTION.update(info)
        byname = dict(allsh)
        for n in extra:
            if n not in have:
                sh.append((n, byname[n]))
                have.add(n)
    else:
        sh = sweep.arm_shards() + sweep.t16_shards() + sweep.t32_shards()
    us = []
    for name, pins in sh:
        iset = name.split('/')[0]
        a = dict(iset=iset, pins=[list(p) for p in pins], claims=list(claims), mode=mode, arch=arch, sec=sec)
        a.update(kw)
        us.append(UnitSpec('sweep/%s%s' % (name, tag), 'vf.sweep', 'mk_sweep', a, max_seconds=3000, max_paths=400000,
                           weight=5 if 'list' in name or '/b' in name else 1))
    return us


# system state that gates coprocessor / privileged-operation paths: symbolic in every sweep
SYS_SYM = {'scr': 0x1, 'nsacr': 0x3FFF, 'cpacr': 0x0FFFFFFF}    # SCR.NS, NSACR.cp0-13, CPACR.cp0-13
SCTLR_SYM = dict(SYS_SYM, sctlr=0x42002002)                     # + SCTLR.{A, V, EE, TE}


def units(tier, seed=0):
    us = shard_units(tier, CLAIMS, seed=seed, sym_sys=SYS_SYM)
    if tier == 'thorough':
        us += shard_units('quick', CLAIMS, tag='/v6', arch=6, seed=seed, sym_sys={'cpacr': 0x0FFFFFFF})
        us += shard_units('quick', CLAIMS, tag='/nosec', sec=False, seed=seed, sym_sys={'cpacr': 0x0FFFFFFF})
        us += shard_units('quick', CLAIMS, tag='/sctlr', seed=seed + 1, sym_sys=SCTLR_SYM)
    return us


META = {
    'explanation': 'Bounded symbolic verification of the real ArmV6.emulate_cycle over the WHOLE instruction space: the '
                   'ARM space is split into 256 shards on bits 27:20, Thumb-16 into shards on bits 15:8, Thumb-32 '
                   'into shards on hw1[12:4]; inside a shard every other instruction bit, every register, the flags, '
                   'the mode, IT state, E bit and the memory array are symbolic, so every decoder path and every '
                   'from_bitarray/execute path of the shard is explored -- including UNPREDICTABLE encodings. Claim: '
                   'the step completes, takes an architectural exception, or raises NotImplementedError from a mock '
                   'hook; no other exception type escapes; all registers stay in [0,2^32); the PC stays aligned.',
    'bounds': ['single step from an arbitrary valid state (multi-instruction programs follow by induction with the '
               'range/alignment invariants re-established after every step)', 'register lists of LDM/STM are windowed: '
               '4 list bits symbolic (r0-r3 or r12-r15 incl. SP/LR/PC/base-in-list; Thumb-16: r0-r3 or r4-r7), the others zero',
               'quick: 24 ARM + 24 Thumb-16 + 24 Thumb-32 shards spread over the space (a fixed spread) plus, '
               'change-directed, the shards that executed a source file differing from the last fully checked tree when '
               'that file is specific to at most 24 shards (vf/changed.py; selection only, verdicts stay per shard); thorough: all shards '
               '(+ arch 6, no-security and SCTLR.{A,V,EE,TE}-symbolic samples)', 'MPU off',
               'SCR.NS, NSACR.cp0-13 and CPACR.cp0-13 symbolic (secure and non-secure state, every coprocessor access '
               'setting); other system registers at their reset values'],
    'outside': ['MPU/MMU enabled stepping (translation totality is exercised by C14/C15)',
                'register lists with both bytes simultaneously symbolic'],
    'stubs': stubs.STUBS_DOC,
    'trusted_base': ['z3', 'symx engine (mirrors int TypeErrors / ZeroDivision / struct range errors)'],
    'assumptions': ['valid machine state'],
}


def main(tier, seed):
    lem = runner.run_lemmas(('sec', 'nosec') if tier == 'thorough' else ('sec',))
    meta = dict(META)
    meta['checker_cmd'] = './check C18 %s' % tier
    us = units(tier, seed)
    meta['bounds'] = list(meta['bounds']) + ['change-directed selection on this run: %s' % (SELECTION or 'no data files')]
    return runner.main_run('C18', tier, us, meta, lemma_results=lem)
