"""Summary lemmas: the real helper (run under forks) == its merged summary, all arguments symbolic.
Also C10(a): the real banking accessors agree with the B1.3.2 bank table for every (n, mode)."""
import z3

from spec import pseudo as P
from symx import core, summaries as SM
from symx.core import SymInt, SymBool, to_bv, tobool, bits_for
from vf import machine as MC
from vf.unit import eq, holds
from vf.runner import UnitSpec

CONFIGS = {'sec': dict(sec=True, virt=False), 'nosec': dict(sec=False, virt=False), 'virt': dict(sec=True, virt=True)}


def same(label, a, b):
    """exact integer equality of two code values"""
    if a is None or b is None:
        return holds(label, a is b)
    ta, tb = type(a), type(b)
    if ta in (bool, SymBool) and tb in (bool, SymBool):
        return holds(label, tobool(a) == tobool(b))
    ea, la, ha = core._parts(a)
    eb, lb, hb = core._parts(b)
    w = max(bits_for(la, ha), bits_for(lb, hb))
    return holds(label, to_bv(a, w) == to_bv(b, w))


def _orig(name):
    SM.install(None)
    SM.uninstall()
    return SM.ORIG[name]


def mk_func_lemma(name, size=32):
    def fn(env):
        import armulator.armv6.arm_v6  # noqa
        from armulator.armv6.shift import SRType
        real = _orig(name)
        summ = SM._table()[name][3]
        if name == 'to_signed':
            x = env.var('x', size)
            return [same('to_signed', real(x, size), summ(x, size))]
        if name == 'add_with_carry':
            x, y, c = env.var('x', size), env.var('y', size), env.var('c', 1)
            r, s = real(x, y, c, size), summ(x, y, c, size)
            return [same('awc[%d]' % i, r[i], s[i]) for i in range(3)]
        if name in ('signed_sat_q', 'unsigned_sat_q'):
            w = env.var('w', 40)
            i = w - (1 << 39)
            r, s = real(i, size), summ(i, size)
            return [same(name + '.result', r[0], s[0]), same(name + '.sat', r[1], s[1])]
        if name == 'lowest_set_bit_ref':
            x = env.var('x', size)
            return [same(name, real(x, size), summ(x, size))]
        if name in ('shift_c', 'shift'):
            x, n, c = env.var('x', 32), env.var('n', 8), env.var('c', 1)
            cl = []
            for t in (SRType.LSL, SRType.LSR, SRType.ASR, SRType.ROR):
                r, s = real(x, 32, t, n, c), summ(x, 32, t, n, c)
                if name == 'shift':
                    cl.append(same('shift %s' % t.name, r, s))
                else:
                    cl += [same('shift_c %s result' % t.name, r[0], s[0]), same('shift_c %s carry' % t.name, r[1], s[1])]
            r, s = real(x, 32, SRType.RRX, 1, c), summ(x, 32, SRType.RRX, 1, c)
            if name == 'shift':
                cl.append(same('shift RRX', r, s))
            else:
                cl += [same('shift_c RRX result', r[0], s[0]), same('shift_c RRX carry', r[1], s[1])]
            return cl
        raise AssertionError(name)
    return fn


def _machine(env, cfgname, **opts):
    cfg, ov = MC.std_cfg(**CONFIGS[cfgname])
    return MC.Machine(env, cfg, ov, **opts)


def _bank_term(pre, N, M, cfg):
    """oracle: value of R[n] of `mode` per the B1.3.2 table"""
    return pre.rmode_get(N, M)


def mk_reg_lemma(name, cfgname):
    """real accessor vs summary vs the oracle's bank table, from an arbitrary register file"""
    def fn(env):
        real = _orig(name)
        summ = SM._table()[name][3]
        m = _machine(env, cfgname, thumb=bool(env.var('thumb_sel', 1) & 0) if False else False)
        regs = m.arm.registers
        pre = m.pre
        cl = []
        if name == 'get_rmode':
            n, mode = env.var('n', 4), env.var('mode', 5)
            env.assume(tobool(n <= 14))
            r = real(regs, n, mode)
            s = summ(regs, n, mode)
            cl.append(same('real == summary', r, s))
            cl.append(eq('real == bank table', r, pre.rmode_get(to_bv(n, 4), to_bv(mode, 5)), 32))
        elif name == 'set_rmode':
            n, mode, v = env.var('n', 4), env.var('mode', 5), env.var('v', 32)
            env.assume(tobool(n <= 14))
            before = dict(regs._R)
            real(regs, n, mode, v)
            after_real = dict(regs._R)
            regs._R = dict(before)
            summ(regs, n, mode, v)
            exp = pre.copy()
            exp.rmode_set(to_bv(n, 4), to_bv(mode, 5), to_bv(v, 32))
            for k in before:
                cl.append(same('real == summary %s' % k.name, after_real[k], regs._R[k]))
                cl.append(eq('real == bank table %s' % k.name, after_real[k], exp.R[k.name], 32))
        elif name == 'get':
            n = env.var('n', 4)
            r = real(regs, n)
            s = summ(regs, n)
            cl.append(same('real == summary', r, s))
            cl.append(eq('real == R[n]', r, pre.reg(to_bv(n, 4)), 32))
        elif name == 'set':
            n, v = env.var('n', 4), env.var('v', 32)
            env.assume(tobool(n <= 14))
            before = dict(regs._R)
            regs.changed_registers = [False] * 16
            real(regs, n, v)
            after_real = dict(regs._R)
            ch_real = list(regs.changed_registers)
            regs._R = dict(before)
            regs.changed_registers = [False] * 16
            summ(regs, n, v)
            exp = pre.copy()
            exp.set_reg(to_bv(n, 4), to_bv(v, 32))
            for k in before:
                cl.append(same('real == summary %s' % k.name, after_real[k], regs._R[k]))
                cl.append(eq('real == bank table %s' % k.name, after_real[k], exp.R[k.name], 32))
            for i in range(16):
                cl.append(same('changed_registers[%d]' % i, ch_real[i], regs.changed_registers[i]))
        elif name in ('current_mode_is_not_user', 'current_mode_is_hyp', 'current_mode_is_user_or_system'):
            r = real(regs)
            sm = summ(regs)
            cl.append(same('real == summary', r if type(r) is SymBool else bool(r), sm))
            M = pre.mode()
            want = {'current_mode_is_not_user': M != MC.MODE['usr'], 'current_mode_is_hyp': M == MC.MODE['hyp'],
                    'current_mode_is_user_or_system': z3.Or(M == MC.MODE['usr'], M == MC.MODE['sys'])}[name]
            cl.append(holds('real == architecture predicate', tobool(r) == want))
        elif name == 'bad_mode':
            mode = env.var('mode', 5)
            r = real(regs, mode)
            sm = summ(regs, mode)
            cl.append(same('real == summary', r if type(r) is SymBool else bool(r), sm))
            cl.append(holds('real == BadMode()', tobool(r) == pre.bad_mode(to_bv(mode, 5))))
        elif name == 'get_spsr':
            r = real(regs)
            s = summ(regs)
            cl.append(same('real == summary', r, s))
            cl.append(holds('real == SPSR[] (modes that have one)',
                            z3.Implies(pre.has_spsr(), to_bv(r, 32) == pre.spsr_get())))
        elif name == 'set_spsr':
            v = env.var('v', 32)
            keys = ['spsr_' + k for k in MC.SPSRS]
            before = {k: getattr(regs, k) for k in keys}
            real(regs, v)
            after_real = {k: getattr(regs, k) for k in keys}
            for k in keys:
                setattr(regs, k, before[k])
            summ(regs, v)
            exp = pre.copy()
            exp.spsr_set(to_bv(v, 32))
            for k in keys:
                cl.append(same('real == summary %s' % k, after_real[k], getattr(regs, k)))
                cl.append(eq('real == SPSR[] table %s' % k, after_real[k], exp.spsr[k[5:]], 32))
        return cl
    return fn


def mk_cond_lemma(thumb):
    """condition_passed real vs summary vs ConditionHolds, opcode and flags symbolic (ARM cond field / Thumb
    conditional branch fields / IT state)"""
    def fn(env):
        real = _orig('condition_passed')
        summ = SM._table()['condition_passed'][3]
        m = _machine(env, 'sec', thumb=thumb, it='any', mode='svc')
        arm = m.arm
        if thumb:
            sel = env.var('len32', 1)
            is32 = bool(sel) if not env.symbolic else bool(core.sym_int(sel).__index__())
            arm.opcode_len = 32 if is32 else 16
            arm.opcode = env.var('opcode', 32 if is32 else 16)
        else:
            arm.opcode_len = 32
            arm.opcode = env.var('opcode', 32)
        r = real(arm)
        s = summ(arm)
        cl = [same('real == summary', bool(r) if type(r) is not SymBool else r, s if type(s) is SymBool else bool(s))]
        # oracle: the condition field per A8.3
        pre = m.pre
        op = to_bv(arm.opcode, 32)
        if not thumb:
            cond = P.bits(op, 31, 28)
            unp = z3.BoolVal(False)
        else:
            it = pre.it()
            itcond = z3.If(P.bits(it, 3, 0) != 0, P.bits(it, 7, 4), P.BV(0b1110, 4))
            if arm.opcode_len == 16:
                cond = z3.If(z3.And(P.bits(op, 15, 12) == 0b1101, P.bits(op, 11, 9) != 0b111), P.bits(op, 11, 8), itcond)
            else:
                isb = z3.And(P.bits(op, 31, 27) == 0b11110, P.bits(op, 15, 14) == 0b10, z3.Not(P.bit(op, 12)),
                           P.bits(op, 25, 23) != 0b111)
                cond = z3.If(isb, P.bits(op, 25, 22), itcond)
            unp = z3.BoolVal(False)
        n, z, c, v = pre.nzcv()
        cl.append(holds('condition_passed == ConditionHolds(cond)', tobool(r) == P.condition_holds(cond, n, z, c, v)))
        return cl
    return fn


FUNC_SIZES = {'to_signed': [8, 16, 32, 64], 'add_with_carry': [8, 16, 32], 'signed_sat_q': [8, 16, 32],
              'unsigned_sat_q': [8, 16, 32], 'lowest_set_bit_ref': [16, 32], 'shift_c': [32], 'shift': [32]}


def lemma_units(cfgnames=('sec',)):
    M = 'vf.lemmas'
    us = []
    for name, sizes in FUNC_SIZES.items():
        for s in sizes:
            us.append(UnitSpec('lemma/%s/%d' % (name, s), M, 'mk_func_lemma', {'name': name, 'size': s},
                               summaries=False))
    for cn in cfgnames:
        for name in ('get_rmode', 'set_rmode', 'get', 'set', 'get_spsr', 'set_spsr', 'current_mode_is_not_user',
                     'current_mode_is_hyp', 'current_mode_is_user_or_system', 'bad_mode'):
            us.append(UnitSpec('lemma/%s/%s' % (name, cn), M, 'mk_reg_lemma', {'name': name, 'cfgname': cn},
                               summaries=False, weight=3))
    us.append(UnitSpec('lemma/condition_passed/arm', M, 'mk_cond_lemma', {'thumb': False}, summaries=False))
    us.append(UnitSpec('lemma/condition_passed/thumb', M, 'mk_cond_lemma', {'thumb': True}, summaries=False))
    return us


def summary_of_unit(uname):
    return uname.split('/')[1]
