"""Change-directed unit selection for the quick tiers of the sweeps (C18, C19).

The quick tier of a sweep explores a spread of instruction-space shards; the thorough tier explores all of them.  Two
committed data files let the quick tier add the shards a change can affect:

* vf/repo_hashes.json -- sha1 of every armulator/**/*.py of the tree on which the thorough tiers last passed;
* vf/shard_files.json -- for every shard, the opcode modules (concrete encoding class + its abstract base) of the
  classes the real decoder returns on the shard's decoder paths (from the decoder-path units of C06/C07, which explore
  every shard in the quick tier; tools/gen_shard_files.py).

changed_files() = files whose hash differs from repo_hashes.json (new, modified or deleted).  extra_shards(names)
returns the shards that executed one of the changed files, provided each changed file is NARROW (executed by at most
NARROW_MAX shards: an opcode, a decoder); a change in a widely shared file (arm_v6.py, registers.py, bits_ops.py) is
seen by every shard of the spread already and selects nothing extra.  Selection is a scheduling heuristic only: what a
selected shard claims is still decided by the solver over all its inputs."""
import hashlib
import json
import os

HERE = os.path.dirname(os.path.abspath(__file__))
NARROW_MAX = 24
EXTRA_MAX = 60


def repo_root():
    return os.environ.get('VERIF_REPO', '/repo')


def tree_hashes(root=None):
    root = root or repo_root()
    out = {}
    base = os.path.join(root, 'armulator')
    for dp, dn, fn in os.walk(base):
        dn[:] = [d for d in dn if d != '__pycache__']
        for f in fn:
            if f.endswith(('.py', '.json')):
                p = os.path.join(dp, f)
                with open(p, 'rb') as fh:
                    out[os.path.relpath(p, root)] = hashlib.sha1(fh.read()).hexdigest()
    return out


def _load(name):
    p = os.path.join(HERE, name)
    if not os.path.exists(p):
        return None
    with open(p) as f:
        return json.load(f)


def changed_files():
    ref = _load('repo_hashes.json')
    if ref is None:
        return None
    cur = tree_hashes()
    return sorted(k for k in set(ref) | set(cur) if ref.get(k) != cur.get(k))


def module_of(path):
    """armulator/armv6/opcodes/abstract_opcodes/stm.py -> armv6.opcodes.abstract_opcodes.stm (the runner's naming)"""
    p = path[:-3] if path.endswith('.py') else path
    parts = p.split('/')
    if parts and parts[0] == 'armulator':
        parts = parts[1:]
    if parts and parts[-1] == '__init__':
        parts = parts[:-1]
    return '.'.join(parts)


def extra_shards(all_names):
    """shard names (subset of all_names) selected by the current changes; also returns a description"""
    ch = changed_files()
    sf = _load('shard_files.json')
    if not ch or sf is None:
        return [], {'changed': ch or [], 'selected': 0}
    mods = {module_of(c): c for c in ch if c.endswith('.py')}
    by_mod = {}
    for shard, ms in sf.items():
        for m in ms:
            if m in mods:
                by_mod.setdefault(m, set()).add(shard)
    picked = []
    info = {'changed': ch, 'narrow': {}, 'wide': [], 'unknown': []}
    for m in sorted(mods):
        s = by_mod.get(m)
        if s is None:
            info['unknown'].append(m)
        elif len(s) <= NARROW_MAX:
            info['narrow'][m] = len(s)
            picked += sorted(s)
        else:
            info['wide'].append(m)
    seen = set()
    out = []
    # sweep shards of block transfers carry a register-list window suffix (A/84/list-r12-15): select every window
    by_base = {}
    for n in all_names:
        by_base.setdefault(n.split('/list')[0], []).append(n)
    for s in picked:
        for n in by_base.get(s, []):
            if n not in seen:
                seen.add(n)
                out.append(n)
    out = out[:EXTRA_MAX]
    info['selected'] = len(out)
    return out, info
