"""Generic functional check of instruction families: every encoding row of the family, every listed
architecture version, through the H-step harness."""
import os

from spec.isa import ISA
from vf import step, known
from vf.runner import UnitSpec


PER_ROW = {}  # row name -> extra mk_step options
WHOLE_ROW_KNOWN = {'EnterxLeavexT1': 'F041'}  # rows whose open known-finding region is the whole row


# case splits: a row whose exploration is a long pole is run as several units, one per value of the named fields
# (the union of the cases is the whole row -- nothing is dropped, the cases run in parallel)
SPLIT = {
    'StrRegisterA1': [('type', 4), ('U', 2)], 'LdrRegisterArmA1': [('type', 4), ('U', 2), ('P', 2)],
    'StrbRegisterA1': [('type', 4)], 'LdrbRegisterA1': [('type', 4)],
    'LdrImmediateThumbT4': [('U', 2), ('W', 2)], 'LdrdImmediateT1': [('U', 2), ('W', 2)],
    'StrdImmediateT1': [('U', 2), ('W', 2)],
    'SubsPcLrArmA1': [('opcode', 16)], 'MsrRegisterSystemT1': [('mask', 16)], 'CpsThumbT2': [('imod', 4), ('M', 2)],
    'CpsArmA1': [('imod', 4), ('M', 2)],
}


# quick tier only: rows whose obligations are solver-bound (a handful of paths, minutes of solver time: the whole multiply
# family, sums of absolute differences, bit-field extraction / insertion with symbolic lsb/width -- each under a 34-way
# register multiplexer per register-number field)
# run with their REGISTER-NUMBER fields pinned to distinct registers; all operand values, flags, mode and the remaining
# fields stay symbolic.  Register-number generality of these rows is covered by the thorough tier and by the operand
# rows of C06/C07.
_R4 = {'Rn': 1, 'Rm': 2, 'Ra': 3, 'Rd': 4}
_RL = {'Rn': 1, 'Rm': 2, 'RdLo': 3, 'RdHi': 4}
QUICK_PIN = {
    'Usada8T1': _R4, 'Usada8A1': _R4, 'SmladT1': _R4, 'SmladA1': _R4, 'SmlsdT1': _R4, 'SmlsdA1': _R4,
    'SmlalxyT1': _RL, 'SmlalxyA1': _RL, 'SmlaldT1': _RL, 'SmlaldA1': _RL, 'SmlsldT1': _RL, 'SmlsldA1': _RL,
    'SbfxT1': {'Rn': 1, 'Rd': 2}, 'SbfxA1': {'Rn': 1, 'Rd': 2},
}


def _auto_split():
    """Thumb-2 arithmetic with a modified immediate (ThumbExpandImm: one path per rotation) or a shifted register:
    the add-with-carry obligations are the slowest of the data-processing table -- split on i:imm3 / on the shift
    type"""
    import re
    for name, E in ISA.items():
        if name in SPLIT or E.iset != 'T32' or E.family != 'dp':
            continue
        if not re.match(r'(Adc|Sbc|Sub|Rsb|Add|Cmp|Cmn)', name):
            continue
        have = {n for k, n, w, v in E.items if k == 'f'}
        if {'i', 'imm3', 'imm8'} <= have:
            SPLIT[name] = [('i', 2), ('imm3', 8)]
        elif {'type', 'imm3', 'imm2', 'Rm'} <= have:
            SPLIT[name] = [('type', 4)]


def split_cases(name, kw):
    """[(suffix, kw)] for the case split of row `name` (one entry with an empty suffix when the row is not split)"""
    if not getattr(split_cases, 'auto', False):
        split_cases.auto = True
        _auto_split()
    cases = [('', kw)]
    fixed = kw.get('fix') or {}
    have = {n for k, n, w, v in ISA[name].items if k == 'f'}
    for field, n in SPLIT.get(name, []):
        if field in fixed or field not in have:
            continue
        nxt = []
        for suf, k in cases:
            for v in range(n):
                k2 = dict(k)
                k2['fix'] = dict(k.get('fix') or {}, **{field: v})
                nxt.append(('%s/%s=%d' % (suf, field, v), k2))
        cases = nxt
    return cases


def family_units(families, archs, tables, only=None, sec=True, virt=False, tag='', **stepkw):
    step.load_tables(tables)
    us = []
    for name, E in sorted(ISA.items()):
        if E.family not in families:
            continue
        if only is not None and name not in only:
            continue
        for arch in archs:
            if arch < E.arch:
                continue
            kw = dict(enc=name, arch=arch, sec=sec, virt=virt, tables=tables)
            if E.family.endswith(('_aux', '_undef')):
                kw['expect_class'] = False  # auxiliary rows: regions where the decoder selects no class
            kw.update(stepkw)
            if name in PER_ROW:
                kw.update(PER_ROW[name])
            pin_tag = ''
            if os.environ.get('VERIF_TIER_ACTIVE', 'quick') == 'quick' and not kw.get('fix') \
                    and not kw.get('reg_values') and (name in QUICK_PIN or E.family == 'mul' or
                                                      name.startswith(('Ubfx', 'Sbfx', 'Bfi', 'Bfc', 'Usad'))):
                have = [n for k, n, w, v in E.items if k == 'f']
                pins = dict(QUICK_PIN.get(name, {}))
                nxt = 1
                for fld in have:  # every register-number field gets its own register (R1, R2, ...)
                    if fld in ('Rn', 'Rm', 'Ra', 'Rd', 'RdLo', 'RdHi', 'Rdn', 'Rdm') and fld not in pins:
                        while nxt in pins.values():
                            nxt += 1
                        pins[fld] = nxt
                        nxt += 1
                kw['fix'] = {k: v for k, v in pins.items() if k in have}
                pin_tag = '/regs-pinned' if kw['fix'] else ''
            extra_split = []
            if os.environ.get('VERIF_TIER_ACTIVE', 'quick') == 'quick' and kw.get('mpu'):
                # MPU-on units in the quick tier: the protection rules are the subject, the condition field is not --
                # ARM rows run with cond = AL and Thumb rows inside an AL IT block (C05 covers conditions), and the U bit is
                # a case split (two units)
                have = {n for k, n, w, v in E.items if k == 'f'}
                fx = dict(kw.get('fix') or {})
                if 'cond' in have and 'cond' not in fx:
                    fx['cond'] = 14
                    pin_tag += '/AL'
                nxt = 1
                for fld in [n for k, n, w, v in E.items if k == 'f']:
                    # register-number fields pinned to distinct registers (values stay symbolic): the 34-way register
                    # multiplexers, not the protection rules, were the cost of these units
                    if fld in ('Rn', 'Rt', 'Rt2', 'Rm') and fld not in fx:
                        fx[fld] = nxt
                        nxt += 1
                        if '/regs-pinned' not in pin_tag:
                            pin_tag += '/regs-pinned'
                kw['fix'] = fx
                if E.thumb and 'it' not in kw:
                    # Thumb rows inside an IT block whose condition is AL (ITSTATE<7:5> = 111, the rest symbolic and
                    # non-zero): the saved IT bits of an abort are observable, the condition never fails (C05 / C08)
                    kw['it'] = 'block:7'
                    pin_tag += '/IT-AL'
                if 'U' in have and 'U' not in fx and name not in SPLIT:
                    extra_split = [('U', 2)]
            if kw.get('reg_values') == 'distinct' and name.startswith('Usad') and 'Rn' in {n for k, n, w, v in E.items
                                                                                           if k == 'f'}:
                extra_split = [('Rn', 16)]  # operand rows of the sum-of-absolute-differences: one unit per Rn
            cases = split_cases(name, kw)
            for field, n_ in extra_split:
                cases = [('%s/%s=%d' % (suf, field, v), dict(k, fix=dict(k.get('fix') or {}, **{field: v})))
                         for suf, k in cases for v in range(n_)]
            for suf, kwc in cases:
                u = UnitSpec('step/%s/v%d%s%s%s' % (name, arch, tag, pin_tag, suf), 'vf.step', 'mk_step', kwc, max_seconds=900,
                             weight=2.0 if 'RegisterA1' in name or 'T2' in name else 1.0)
                if suf:
                    u.allow_vacuous = True  # a case may be empty (excluded by the row's guard)
                if name in WHOLE_ROW_KNOWN and WHOLE_ROW_KNOWN[name] in known.open_ids():
                    # the open known finding covers every input of this row on the configurations used: nothing is
                    # left to explore (the finding's committed witness is replayed by the runner instead)
                    u.allow_vacuous = True
                us.append(u)
    return us
