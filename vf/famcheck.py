"""Generic functional check of instruction families: every encoding row of the family, every listed
architecture version, through the H-step harness."""
from spec.isa import ISA
from vf import step
from vf.runner import UnitSpec


PER_ROW = {}  # row name -> extra mk_step options


def family_units(families, archs, tables, only=None, sec=True, virt=False, tag='', **stepkw):
    step.load_tables(tables)
    us = []
    for name, E in sorted(ISA.items()):
        if E.family not in families:
            continue
        if only is not None and name not in only:
            continue
        for arch in archs:
            if arch < E.arch:
                continue
            kw = dict(enc=name, arch=arch, sec=sec, virt=virt, tables=tables)
            if E.family.endswith(('_aux', '_undef')):
                kw['expect_class'] = False  # auxiliary rows: regions where the decoder selects no class
            kw.update(stepkw)
            if name in PER_ROW:
                kw.update(PER_ROW[name])
            us.append(UnitSpec('step/%s/v%d%s' % (name, arch, tag), 'vf.step', 'mk_step', kw, max_seconds=900,
                               weight=2.0 if 'RegisterA1' in name or 'T2' in name else 1.0))
    return us
