"""CLI: python -m vf.run <property> <quick|thorough>"""
import importlib
import os
import sys


def main(argv):
    pid = argv[1].upper()
    tier = argv[2] if len(argv) > 2 else os.environ.get('VERIF_TIER', 'quick')
    seed = int(os.environ.get('VERIF_SEED', '0') or 0)
    os.environ['VERIF_TIER_ACTIVE'] = tier
    sys.setrecursionlimit(10000)
    mod = importlib.import_module('vf.%s' % pid.lower())
    if hasattr(mod, 'main'):
        return mod.main(tier, seed)
    from vf import runner
    specs = mod.units(tier, seed)
    meta = dict(mod.META)
    meta['checker_cmd'] = './check %s %s' % (pid, tier)
    return runner.main_run(pid, tier, specs, meta)


if __name__ == '__main__':
    sys.exit(main(sys.argv))
