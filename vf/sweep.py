"""H-sweep: one emulate_cycle over EVERY decoder path of a shard of the instruction space (ARM, Thumb-16,
Thumb-32), from an arbitrary valid machine state, with oracle-free claims:

  host   (C18) no internal host error escapes emulate_cycle (NotImplementedError of a mock hook is allowed)
  range  (C10) every general register, SPSR, ELR_hyp and the PC stays in [0, 2^32)
  align  (C04) the PC is word aligned in ARM state / halfword aligned in Thumb state afterwards
  priv   (C19) from User mode: still User with A/I/F, all other banks, SPSRs and every system register
         unchanged -- or an architectural exception was taken to a privileged mode at its vector with SPSR.M = User
  noop   (C05) when the instruction's condition fails nothing changes except PC += length and the IT advance

A shard pins some bits of the instruction word to constants (so the decoder's dispatch is mostly concrete); all
other word bits, all registers, flags, mode and memory are symbolic.
"""
import z3

from spec import pseudo as P
from spec.state import MODE, RNAMES, SPSRS
from symx import core
from symx.core import to_bv, in_range
from vf import machine as MC
from vf.unit import eq, holds, from_code, _tb_tail

BV = z3.BitVecVal


def word_from_pins(env, length, pins, prefix='w'):
    """pins: list of (hi, lo, value); other bits symbolic. returns z3 term"""
    known = {}
    for hi, lo, val in pins:
        for b in range(lo, hi + 1):
            known[b] = (val >> (b - lo)) & 1
    parts = []
    i = length - 1
    while i >= 0:
        j = i
        k = i in known
        while j - 1 >= 0 and ((j - 1) in known) == k:
            j -= 1
        if k:
            v = 0
            for b in range(i, j - 1, -1):
                v = (v << 1) | known[b]
            parts.append(BV(v, i - j + 1))
        else:
            parts.append(env.bvvar('%s_%d_%d' % (prefix, i, j), i - j + 1))
        i = j - 1
    return z3.Concat(*parts) if len(parts) > 1 else parts[0]


EXC_MODES = ['svc', 'und', 'abt', 'mon', 'hyp']
VECTOR = {'und': 4, 'svc': 8, 'abt': 16}


def mk_sweep(iset, pins, arch=7, sec=True, virt=False, mode=None, claims=('host', 'range', 'align'), sym_sys=None,
             set_sys=None, e_sym=True, it='any'):
    """iset: 'A' | 'T16' | 'T32'"""
    thumb = iset != 'A'
    length = 16 if iset == 'T16' else 32

    def fn(env):
        cfg, ov = MC.std_cfg(arch=arch, sec=sec, virt=virt)

        def build():
            m = MC.Machine(env, cfg, ov, thumb=thumb, mode=mode, it=(it if thumb else 'none'), e_sym=e_sym,
                           sym_sys=sym_sys or {}, set_sys=set_sys or {})
            word = word_from_pins(env, length, [tuple(p) for p in pins])
            m.word = word
            if iset == 'T32':
                # a 32-bit Thumb instruction starts with hw1[15:11] in {11101, 11110, 11111}
                env.assume(z3.Or(*[P.bits(word, 31, 27) == v for v in (0b11101, 0b11110, 0b11111)]))
            if iset == 'T16':
                env.assume(z3.And(*[P.bits(word, 15, 11) != v for v in (0b11101, 0b11110, 0b11111)]))
            m.place_instruction(word, length)
            return m

        def run(m):
            m.escaped = None
            try:
                m.arm.emulate_cycle()
            except Exception as ex:
                if not from_code(ex):
                    raise
                m.escaped = ex
        m = MC.stepper(env, build, run)
        cl = []
        if m.escaped is not None:
            ex = m.escaped
            if isinstance(ex, NotImplementedError):
                env.note('outcome', 'NotImplementedError')
                return [holds('reports an explicitly unimplemented feature', True)]
            env.note('outcome', 'host:' + type(ex).__name__)
            return [('no internal host error escapes emulate_cycle', z3.BoolVal(False),
                     '%s: %s @ %s' % (type(ex).__name__, ex, _tb_tail(ex)))]
        env.note('outcome', 'ok')
        snap = m.snapshot()
        pre = m.pre
        if 'host' in claims:
            cl.append(holds('no internal host error escapes emulate_cycle', True))
        cpsr = snap['cpsr']
        C = to_bv(cpsr, 32)
        if 'range' in claims:
            for name in RNAMES:
                cl.append(holds('range R.' + name, in_range(snap['R.' + name], 32)))
            for k in SPSRS:
                cl.append(holds('range spsr.' + k, in_range(snap['spsr.' + k], 32)))
            cl.append(holds('range elr_hyp', in_range(snap['elr_hyp'], 32)))
            cl.append(holds('range cpsr', in_range(cpsr, 32)))
        if 'align' in claims:
            pc = to_bv(snap['R.PC'], 32)
            tbit = P.bits(C, 5, 5) == 1
            cl.append(holds('PC aligned for the instruction set selected afterwards',
                            z3.And(in_range(snap['R.PC'], 32),
                                   z3.If(tbit, P.bits(pc, 0, 0) == 0, P.bits(pc, 1, 0) == 0))))
        if 'priv' in claims:
            # start state is User mode (mode='usr')
            M = P.bits(C, 4, 0)
            same = [z3.And(in_range(cpsr, 32), M == MODE['usr'], P.bits(C, 8, 6) == P.bits(pre.cpsr, 8, 6))]
            for name in RNAMES:
                if name.endswith('usr') or name == 'PC':
                    continue
                same.append(z3.And(in_range(snap['R.' + name], 32), to_bv(snap['R.' + name], 32) == pre.R[name]))
            for k in SPSRS:
                same.append(z3.And(in_range(snap['spsr.' + k], 32), to_bv(snap['spsr.' + k], 32) == pre.spsr[k]))
            same.append(to_bv(snap['elr_hyp'], 32) == pre.elr_hyp)
            for k, v in snap.items():
                if k.startswith('sys.'):
                    a = k[4:]
                    w = MC.WIDE.get(a.split('[')[0], 32)
                    if a in pre.sys and not z3.is_bool(pre.sys[a]):
                        same.append(z3.And(in_range(v, w), to_bv(v, w) == pre.sys[a]))
            stay = z3.And(*same)
            # or: an architectural exception was taken
            taken = []
            base = pre.exc_vector_base()
            pcv = to_bv(snap['R.PC'], 32)
            for em, off in (('und', 4), ('svc', 8), ('abt', 16)):
                sp = to_bv(snap['spsr.' + em], 32)
                taken.append(z3.And(M == MODE[em], pcv == base + off, P.bits(sp, 4, 0) == MODE['usr'],
                                    P.bits(C, 7, 7) == 1))
            if cfg['sec']:
                sp = to_bv(snap['spsr.mon'], 32)
                taken.append(z3.And(M == MODE['mon'], pcv == pre.sys['mvbar'] + 8, P.bits(sp, 4, 0) == MODE['usr']))
            if cfg['virt']:
                sp = to_bv(snap['spsr.hyp'], 32)
                taken.append(z3.And(M == MODE['hyp'], P.bits(sp, 4, 0) == MODE['usr']))
            cl.append(holds('User mode confinement: state kept, or an exception taken to a privileged mode at its '
                            'vector with SPSR.M = User', z3.Or(stay, *taken)))
        return cl
    return fn


# ---------------------------------------------------------------------------
# shard generators
# ---------------------------------------------------------------------------

# register lists of LDM/STM-class instructions: the loop over the 16 list bits forks once per bit, so the list is
# windowed: 4 list bits symbolic (r0-r3, or r12-r15 = IP/SP/LR/PC incl. base-in-list cases), the others zero
LIST_WINDOWS = [('r0-3', [(15, 4, 0)]), ('r12-15', [(11, 0, 0)])]


def arm_shards():
    """(name, pins) for the ARM space: bits 27:20 pinned; block-transfer shards additionally window the list"""
    out = []
    for op in range(256):
        pins = [(27, 20, op)]
        if (op >> 5) == 0b100:  # LDM/STM: register_list = bits 15:0
            for wn, wp in LIST_WINDOWS:
                out.append(('A/%02x/list-%s' % (op, wn), pins + wp))
        else:
            out.append(('A/%02x' % op, pins))
    return out


def t16_shards():
    out = []
    for op in range(0, 0xE8):
        if (op >> 3) in (0b11101, 0b11110, 0b11111):
            continue
        if (op >> 4) == 0xC or op in (0xB4, 0xB5, 0xBC, 0xBD):  # LDM/STM/PUSH/POP: 8-bit register list
            out.append(('T16/%02x/list-r0-3' % op, [(15, 8, op), (7, 4, 0)]))
            out.append(('T16/%02x/list-r4-7' % op, [(15, 8, op), (3, 0, 0)]))
        else:
            out.append(('T16/%02x' % op, [(15, 8, op)]))
    return out


def t32_shards():
    """hw1 = 111 op1:2 op2:7 ....: pin bits 28:20 of the 32-bit word (hw1[12:4])"""
    out = []
    for v in range(128, 512):
        op1 = v >> 7
        pins = [(31, 29, 0b111), (28, 20, v)]
        op2 = v & 0x7F
        if op1 == 1 and (op2 & 0b1100100) == 0:  # load/store multiple: register list in hw2
            for wn, wp in LIST_WINDOWS:
                out.append(('T32/%03x/list-%s' % (v, wn), pins + wp))
        else:
            out.append(('T32/%03x' % v, pins))
    return out


def quick_sample(shards, n, seed=0):
    """deterministic spread of n shards (seed rotates the offset)"""
    if n >= len(shards):
        return list(shards)
    stepf = len(shards) / float(n)
    off = (seed * 7) % max(1, int(stepf))
    return [shards[min(len(shards) - 1, int(i * stepf) + off)] for i in range(n)]
