"""C02: single-register loads and stores access the right address, width and register."""
from symx import stubs
from vf import famcheck, runner, step

TABLES = ['isa_ls', 'isa_ls_wb', 'isa_ls_hd']
FAMS = {'ls', 'ls_wb', 'ls_hd', 'ls_wb_undef', 'ls_hd_aux'}
SCTLR_AU = (1 << 1) | (1 << 22)

# anchor rows run in the quick tier with SCTLR.A/U symbolic; every other row runs with the reset policy in quick
QUICK_POLICY_SYM = ['LdrRegisterArmA1', 'LdrImmediateThumbT1', 'LdrImmediateThumbT2', 'LdrshRegisterA1',
                    'LdrshRegisterT1', 'StrRegisterA1', 'StrRegisterT1', 'LdrdImmediateA1', 'StrexA1', 'StrexT1',
                    'LdrtA1', 'LdrtT1', 'StrhImmediateT1', 'StrImmediateThumbT1']


def units(tier, seed=0):
    if tier == 'quick':
        us = famcheck.family_units(FAMS, [7], TABLES)
        us += famcheck.family_units(FAMS, [6], TABLES, only=QUICK_POLICY_SYM, tag='/policy',
                                    sym_sys={'sctlr': SCTLR_AU}, e_sym=True)
        return us
    us = famcheck.family_units(FAMS, [6, 7], TABLES, sym_sys={'sctlr': SCTLR_AU}, e_sym=True)
    return us


META = {
    'explanation': 'Bounded symbolic verification of the real code: every LDR/STR-family encoding row (byte, halfword, '
                   'word, doubleword; sign/zero extending; immediate, literal, register offset; unprivileged; '
                   'exclusive) is stepped through the real emulate_cycle with all fields (P/U/W, registers, '
                   'immediates, shifts), all register values (so every base address incl. wrap-around at 2^32 and '
                   'every alignment), the memory array, flags and mode symbolic; the solver must show address, '
                   'transferred bytes (pointwise extensional memory equality), destination value, write-back, '
                   'load-to-PC interworking, alignment aborts (DFSR/DFAR, abt entry) and the frame equal the A8.8 '
                   'pseudocode.',
    'bounds': ['quick: arch 7 with the reset alignment policy for all rows + arch 6 with SCTLR.A/U and CPSR.E symbolic for the '
               'anchor rows; thorough: arch 6 and 7, SCTLR.A/U and CPSR.E symbolic for every row',
               'MPU off (permission faults are C14)', 'exclusive monitors are constant-False stubs in the repository: '
               'STREX* is checked against "monitor never passes"'],
    'outside': ['UNPREDICTABLE encodings, UNKNOWN data (pre-v7 unaligned halfword without unaligned support)',
                'exclusive-monitor success'],
    'stubs': stubs.STUBS_DOC,
    'trusted_base': ['z3', 'symx engine', 'oracle rows spec/isa_ls*.py', 'MemA/MemU oracle in spec/state.py'],
    'assumptions': ['valid machine state'],
}


def main(tier, seed):
    lem = runner.run_lemmas(('sec',))
    meta = dict(META)
    meta['checker_cmd'] = './check C02 %s' % tier
    return runner.main_run('C02', tier, units(tier, seed), meta, lemma_results=lem)
