"""C20: determinism and isolation -- a step depends only on the instance's own configuration, state and memory."""
import copy
import types

import z3

from symx import core, stubs
from vf import famcheck, runner, step
from vf import machine as MC
from vf.runner import UnitSpec
from vf.unit import holds

SAMPLE = ['AdcRegisterA1', 'AddImmediateThumbT3', 'MovRegisterArmA1', 'MovRegisterThumbT1', 'LdrImmediateArmA1',
          'StrImmediateArmA1', 'LdrRegisterArmA1', 'StrRegisterT2', 'BA1', 'BT3', 'BlBlxImmediateT1', 'BxA1', 'CbzT1',
          'ItT1', 'SvcA1', 'SvcT1', 'UdfT1', 'MsrRegisterSystemA1', 'CpsArmA1', 'SubsPcLrArmA1', 'WfeA1', 'SevA1',
          'McrMcr2A1', 'Sadd8A1', 'UsatT1', 'SxtabA1', 'BfcA1', 'LdrexA1', 'StrexT1', 'LdrdImmediateA1', 'TbbTbhT1',
          'LslRegisterT1', 'CmpRegisterT2', 'AddSpPlusRegisterThumbT1', 'PkhA1', 'ClzT1', 'Uhsub16T1', 'SelA1']

FOREIGN_DIFF = [dict(arch=6), dict(arch=7, sec=False), dict(arch=7, vmsa=True)]


def mutable_globals():
    """every mutable module-level object of armulator.* (by reflection)"""
    import sys
    from enum import Enum
    out = {}
    for mn, mod in list(sys.modules.items()):
        if not mn.startswith('armulator') or mod is None:
            continue
        for k, v in vars(mod).items():
            if k.startswith('__') or k in ('print', 'int', 'bin', 'struct', 'bytearray'):
                continue
            if isinstance(v, (types.ModuleType, types.FunctionType, type, types.BuiltinFunctionType, int, str, bytes,
                              float, tuple, frozenset, type(None), Enum)):
                continue
            out['%s.%s' % (mn, k)] = v
    return out


def _freeze(v, depth=0):
    if depth > 4:
        return repr(type(v))
    if isinstance(v, dict):
        return tuple(sorted((str(k), _freeze(x, depth + 1)) for k, x in v.items()))
    if isinstance(v, (list, tuple, set)):
        return tuple(_freeze(x, depth + 1) for x in v)
    if hasattr(v, '__dict__') and not isinstance(v, type):
        return (type(v).__name__, _freeze(vars(v), depth + 1))
    return repr(v)


def mk_globals(enc, arch=7):
    """no step writes module-level state: snapshot of all mutable module globals before/after, on every path"""
    inner = step.mk_step(enc, arch=arch)

    def fn(env):
        import armulator.armv6.arm_v6  # noqa
        # the first call may load the configuration (ArmV6.__init__): take the snapshot after construction by
        # wrapping emulate_cycle
        from armulator.armv6.arm_v6 import ArmV6
        box = {}
        orig = ArmV6.emulate_cycle

        def wrapped(self):
            box['before'] = {k: _freeze(v) for k, v in mutable_globals().items()}
            try:
                return orig(self)
            finally:
                box['after'] = {k: _freeze(v) for k, v in mutable_globals().items()}
        ArmV6.emulate_cycle = wrapped
        try:
            cl = inner(env)
        finally:
            ArmV6.emulate_cycle = orig
        diff = [k for k in box.get('before', {}) if box['before'][k] != box.get('after', {}).get(k)]
        new = [k for k in box.get('after', {}) if k not in box.get('before', {})]
        cl = list(cl or [])
        cl.append(('no module-level object is written by a step', z3.BoolVal(not diff and not new),
                   'changed: %s new: %s' % (diff[:5], new[:5])))
        cl.append(holds('module-level mutable objects enumerated', z3.BoolVal(len(box.get('before', {})) >= 1)))
        return cl
    return fn


def units(tier, seed=0):
    T = list(step.FAMILIES)
    step.load_tables(T)
    from spec.isa import ISA
    rows = [r for r in SAMPLE if r in ISA]
    fams = set(ISA[r].family for r in rows)
    us = []
    if tier == 'quick':
        us += famcheck.family_units(fams, [7], T, only=rows, tag='/scratch', havoc_scratch=True)
    else:
        allf = set(e.family for e in ISA.values())
        us += famcheck.family_units(allf, [7], T, tag='/scratch', havoc_scratch=True)
    for r in rows[:12] if tier == 'quick' else rows:
        us.append(UnitSpec('globals/%s' % r, 'vf.c20', 'mk_globals', dict(enc=r)))
    # history independence with hidden state in mind: the same (concrete) bit pattern is first executed in the other
    # instruction set, the architectural snapshot is re-installed, then the checked step must still match the oracle
    PRE = [('AddRegisterThumbT3', {'S': 0, 'Rn': 0, '_sb0': 0, 'imm3': 0, 'Rd': 0, 'imm2': 0, 'type': 0, 'Rm': 1}),
           ('BlBlxImmediateA1', {'cond': 14, 'imm24': 1}), ('LdrImmediateArmA1', {'cond': 14, 'P': 1, 'U': 1, 'W': 0,
                                                                                  'Rn': 1, 'Rt': 2, 'imm12': 4}),
           ('MovImmediateT2', {'i': 0, 'S': 0, 'imm3': 0, 'Rd': 1, 'imm8': 0x42}),
           ('AndRegisterT2', {'S': 1, 'Rn': 2, '_sb0': 0, 'imm3': 0, 'Rd': 3, 'imm2': 0, 'type': 0, 'Rm': 4})]
    for r, fx in PRE:
        if r in ISA:
            us += famcheck.family_units({ISA[r].family}, [7], T, only=[r], tag='/prehistory', prehistory='other-iset',
                                        fix=fx)
    # isolation: another instance created between construction and step
    iso = ['MovRegisterArmA1', 'LdrImmediateArmA1', 'BxA1', 'SvcA1', 'StrRegisterT2', 'AdcRegisterA1']
    iso = [r for r in iso if r in ISA]
    us += famcheck.family_units(fams | set(ISA[r].family for r in iso), [7], T, only=iso, tag='/isolation/foreign-same',
                                foreign_config=dict(arch=7))
    for i, fc in enumerate(FOREIGN_DIFF):
        for u in famcheck.family_units(fams | set(ISA[r].family for r in iso), [7], T, only=iso[:3],
                                       tag='/isolation/foreign-different/%d' % i, foreign_config=fc):
            u.name = 'isolation/foreign-different/%d/%s' % (i, u.name)
            us.append(u)
    return us


META = {
    'explanation': 'Bounded symbolic verification of the real code. (a) Determinism / snapshot independence: the '
                   'per-step scratch state (opcode, opcode_len, executed_opcode, changed_registers) is havocked with '
                   'fresh solver variables before emulate_cycle and the step must still equal the oracle step, which '
                   'is a function of configuration, architectural state and memory only -- so nothing executed before '
                   'a snapshot can influence the trace after it; a symbolic run is itself a function of its declared '
                   'inputs, and every counterexample is replayed in a fresh process. (b) No global writes: all '
                   'mutable module-level objects of armulator.* (found by reflection) are snapshotted around the step '
                   'on every explored path and must be unchanged. (c) Isolation: a second instance is created between '
                   'construction and step. With an equal configuration the step is unaffected; together with (a) and '
                   '(b) every interleaving of two equally-configured instances gives each its solo trace (each step '
                   'reads and writes only the instance own objects). With a DIFFERENT configuration the step changes: '
                   'this is the module-level configuration singleton, a known finding (F015).',
    'bounds': ['scratch havoc on a 38-row sample (quick) / every row (thorough), arch 7', 'thread-level schedules are '
               'outside the technique (sequential symbolic execution); interleavings at step granularity are covered '
               'by the frame argument'],
    'outside': ['data races between threads inside CPython', 'instances with different configurations (known finding)'],
    'stubs': stubs.STUBS_DOC,
    'trusted_base': ['z3', 'symx engine', 'reflection over module globals'],
    'assumptions': ['valid machine state'],
}


def main(tier, seed):
    lem = runner.run_lemmas(('sec',))
    meta = dict(META)
    meta['checker_cmd'] = './check C20 %s' % tier
    return runner.main_run('C20', tier, units(tier, seed), meta, lemma_results=lem)
