"""C20: determinism and isolation -- a step depends only on the instance's own configuration, state and memory."""
import copy
import types

import z3

from symx import core, stubs
from vf import famcheck, runner, step
from vf import machine as MC
from vf.runner import UnitSpec
from vf.unit import holds

SAMPLE = ['AdcRegisterA1', 'AddImmediateThumbT3', 'MovRegisterArmA1', 'MovRegisterThumbT1', 'LdrImmediateArmA1',
          'StrImmediateArmA1', 'LdrRegisterArmA1', 'StrRegisterT1', 'BA1', 'BT3', 'BlBlxImmediateT1', 'BxA1', 'CbzT1',
          'ItT1', 'SvcA1', 'SvcT1', 'UdfT1', 'MsrRegisterSystemA1', 'CpsArmA1', 'SubsPcLrArmA1', 'WfeA1', 'SevA1',
          'McrMcr2A1', 'Sadd8A1', 'UsatT1', 'SxtabA1', 'BfcA1', 'LdrexA1', 'StrexT1', 'LdrdImmediateA1', 'TbbTbhT1',
          'LslRegisterT1', 'CmpRegisterT2', 'AddSpPlusRegisterThumbT1', 'PkhA1', 'ClzT1', 'Uhsub16T1', 'SelA1']

FOREIGN_DIFF = [dict(arch=6), dict(arch=7, sec=False), dict(arch=7, vmsa=True)]


def mutable_globals():
    """every mutable module-level object of armulator.* (by reflection)"""
    import sys
    from enum import Enum
    out = {}
    for mn, mod in list(sys.modules.items()):
        if not mn.startswith('armulator') or mod is None:
            continue
        for k, v in vars(mod).items():
            if k.startswith('__') or k in ('print', 'int', 'bin', 'struct', 'bytearray'):
                continue
            if isinstance(v, (types.ModuleType, types.FunctionType, type, types.BuiltinFunctionType, int, str, bytes,
                              float, tuple, frozenset, type(None), Enum)):
                continue
            out['%s.%s' % (mn, k)] = v
        # class-level data attributes of the classes defined in the module (shared by all instances)
        for k, v in list(vars(mod).items()):
            if isinstance(v, type) and getattr(v, '__module__', None) == mn and not issubclass(v, Enum):
                for a, x in vars(v).items():
                    if a.startswith('__') or a in ('_abc_impl',) or callable(x) or \
                            isinstance(x, (property, staticmethod, classmethod, types.MemberDescriptorType,
                                           types.GetSetDescriptorType)):
                        continue
                    out['%s.%s.%s' % (mn, k, a)] = x
    return out


def _freeze(v, depth=0):
    if depth > 4:
        return repr(type(v))
    if isinstance(v, dict):
        return tuple(sorted((str(k), _freeze(x, depth + 1)) for k, x in v.items()))
    if isinstance(v, (list, tuple, set)):
        return tuple(_freeze(x, depth + 1) for x in v)
    if hasattr(v, '__dict__') and not isinstance(v, type):
        return (type(v).__name__, _freeze(vars(v), depth + 1))
    return repr(v)


def mk_globals(enc, arch=7):
    """no step writes module-level state: snapshot of all mutable module globals before/after, on every path"""
    inner = step.mk_step(enc, arch=arch)

    def fn(env):
        import armulator.armv6.arm_v6  # noqa
        # the first call may load the configuration (ArmV6.__init__): take the snapshot after construction by
        # wrapping emulate_cycle
        from armulator.armv6.arm_v6 import ArmV6
        box = {}
        orig = ArmV6.emulate_cycle

        def wrapped(self):
            box['before'] = {k: _freeze(v) for k, v in mutable_globals().items()}
            try:
                return orig(self)
            finally:
                box['after'] = {k: _freeze(v) for k, v in mutable_globals().items()}
        ArmV6.emulate_cycle = wrapped
        try:
            cl = inner(env)
        finally:
            ArmV6.emulate_cycle = orig
        diff = [k for k in box.get('before', {}) if box['before'][k] != box.get('after', {}).get(k)]
        new = [k for k in box.get('after', {}) if k not in box.get('before', {})]
        cl = list(cl or [])
        cl.append(('no module-level object is written by a step', z3.BoolVal(not diff and not new),
                   'changed: %s new: %s' % (diff[:5], new[:5])))
        cl.append(holds('module-level mutable objects enumerated', z3.BoolVal(len(box.get('before', {})) >= 1)))
        return cl
    return fn


def _reg_values(arm):
    """{name: value} of every AbstractRegister (and list of them) plus the core registers of an instance"""
    from armulator.armv6.all_registers.abstract_register import AbstractRegister
    out = {}
    for k, v in sorted(vars(arm.registers).items()):
        if isinstance(v, AbstractRegister):
            out[k] = (v.value, v.length)
        elif isinstance(v, list) and v and isinstance(v[0], AbstractRegister):
            for i, x in enumerate(v):
                out['%s[%d]' % (k, i)] = (x.value, x.length)
        elif k == '_R':
            for rn, x in v.items():
                out['R.%s' % getattr(rn, 'name', rn)] = (x, 32)
    return out


def mk_construct(own=None, foreign=None, sym=('SCTLR', 'VBAR', 'ACTLR', 'DACR', 'TTBCR'), foreign_steps=0):
    """construction isolation: an instance B built from configuration X after ANOTHER instance A (configuration Y
    whose reset-value numerals are arbitrary: the file contents are the nondeterministic environment) has been
    built (and stepped) starts in exactly the state of a B built alone"""
    own = own or dict(arch=7, vmsa=True)
    foreign = foreign or dict(arch=6)

    def fn(env):
        import json
        import os
        from armulator.armv6.configurations import Configurations
        from armulator.armv6.arm_v6 import ArmV6
        fcfg, fov = MC.std_cfg(**foreign)
        fpath = MC.config_path(**fov)
        ocfg, oov = MC.std_cfg(**own)
        conf = json.loads(json.dumps(MC.BASE_CONFIG))
        conf.update(oov)
        conf['reset_values'] = {'MIDR': MC.BASE_CONFIG['reset_values']['MIDR']}
        opath = os.path.join(MC._tmp(), 'own-%d.json' % os.getpid())
        with open(opath, 'w') as f:
            json.dump(conf, f)
        B0 = ArmV6(opath)
        base = _reg_values(B0)
        orig_load = Configurations.load

        def load(self, path):
            orig_load(self, path)
            if path == fpath:
                rv = dict(self.configs['reset_values'])
                for n in sym:
                    rv[n] = env.var('reset_' + n, 32)
                self.configs['reset_values'] = rv
        Configurations.load = load
        try:
            A = ArmV6(fpath)
            for _ in range(foreign_steps):
                try:
                    A.emulate_cycle()
                except Exception as ex:  # whatever the foreign instance does is irrelevant here
                    from vf.unit import from_code
                    if not from_code(ex):
                        raise
            B = ArmV6(opath)
        finally:
            Configurations.load = orig_load
        got = _reg_values(B)
        cl = [holds('same set of registers', z3.BoolVal(sorted(got) == sorted(base)))]
        from vf.unit import eq
        for k in sorted(base):
            if k in got:
                cl.append(eq('initial %s of an instance built after a foreign one' % k, got[k][0],
                             z3.BitVecVal(base[k][0], max(base[k][1], 32)), max(base[k][1], 32)))
        return cl
    return fn


def units(tier, seed=0):
    T = list(step.FAMILIES)
    step.load_tables(T)
    from spec.isa import ISA
    rows = [r for r in SAMPLE if r in ISA]
    fams = set(ISA[r].family for r in rows)
    us = []
    if tier == 'quick':
        us += famcheck.family_units(fams, [7], T, only=rows, tag='/scratch', havoc_scratch=True)
    else:
        allf = set(e.family for e in ISA.values())
        us += famcheck.family_units(allf, [7], T, tag='/scratch', havoc_scratch=True)
    for r in rows[:12] if tier == 'quick' else rows:
        us.append(UnitSpec('globals/%s' % r, 'vf.c20', 'mk_globals', dict(enc=r)))
    # history independence with hidden state in mind: the same (concrete) bit pattern is first executed in the other
    # instruction set, the architectural snapshot is re-installed, then the checked step must still match the oracle
    PRE = [('AddRegisterThumbT3', {'S': 0, 'Rn': 0, '_sb0': 0, 'imm3': 0, 'Rd': 0, 'imm2': 0, 'type': 0, 'Rm': 1}),
           ('BlBlxImmediateA1', {'cond': 14, 'imm24': 1}), ('LdrImmediateArmA1', {'cond': 14, 'P': 1, 'U': 1, 'W': 0,
                                                                                  'Rn': 1, 'Rt': 2, 'imm12': 4}),
           ('MovImmediateT2', {'i': 0, 'S': 0, 'imm3': 0, 'Rd': 1, 'imm8': 0x42}),
           ('AndRegisterT2', {'S': 1, 'Rn': 2, '_sb0': 0, 'imm3': 0, 'Rd': 3, 'imm2': 0, 'type': 0, 'Rm': 4})]
    for r, fx in PRE:
        if r in ISA:
            us += famcheck.family_units({ISA[r].family}, [7], T, only=[r], tag='/prehistory', prehistory='other-iset',
                                        fix=fx)
    # ... and in the same instruction set from a state with unrelated flags / IT state: rows whose decode takes operands
    # from the state (set-flags from InITBlock(), the shifter / modified-immediate carry)
    PRE2 = [('AddImmediateThumbT2', {'Rdn': 1, 'imm8': 1}), ('MovImmediateT1', {'Rd': 0, 'imm8': 0}),
            ('MovImmediateA1', {'cond': 14, 'S': 1, '_sb0': 0, 'Rd': 2, 'imm12': 1}),
            ('AndImmediateT1', {'i': 0, 'S': 1, 'Rn': 1, 'imm3': 0, 'Rd': 2, 'imm8': 0x55}),
            ('TstImmediateA1', {'cond': 14, 'Rn': 3, '_sb0': 0, 'imm12': 0xFF}),
            ('AndRegisterT2', {'S': 1, 'Rn': 2, '_sb0': 0, 'imm3': 0, 'Rd': 3, 'imm2': 0, 'type': 0, 'Rm': 4})]
    for r, fx in PRE2:
        if r in ISA:
            us += famcheck.family_units({ISA[r].family}, [7], T, only=[r], tag='/prehistory-same-iset',
                                        prehistory='same-iset', fix=fx)
    # construction isolation: an instance built after a foreign one starts in the state of one built alone
    us.append(UnitSpec('construct/after-foreign/v6-pmsa', 'vf.c20', 'mk_construct', {}))
    us.append(UnitSpec('construct/after-foreign/same-cfg-stepped', 'vf.c20', 'mk_construct',
                       dict(foreign=dict(arch=7, vmsa=True), foreign_steps=1, sym=['VBAR', 'DACR'])))
    if tier == 'thorough':
        us.append(UnitSpec('construct/after-foreign/nosec', 'vf.c20', 'mk_construct',
                           dict(own=dict(arch=7, sec=False), foreign=dict(arch=7, virt=True))))
    # isolation: another instance created between construction and step
    iso = ['MovRegisterArmA1', 'LdrImmediateArmA1', 'BxA1', 'SvcA1', 'StrRegisterT2', 'AdcRegisterA1']
    iso = [r for r in iso if r in ISA]
    us += famcheck.family_units(fams | set(ISA[r].family for r in iso), [7], T, only=iso, tag='/isolation/foreign-same',
                                foreign_config=dict(arch=7))
    for i, fc in enumerate(FOREIGN_DIFF):
        for u in famcheck.family_units(fams | set(ISA[r].family for r in iso), [7], T, only=iso[:3],
                                       tag='/isolation/foreign-different/%d' % i, foreign_config=fc):
            u.name = 'isolation/foreign-different/%d/%s' % (i, u.name)
            us.append(u)
    # a foreign instance with a DIFFERENT configuration constructed and stepped BEFORE this one is constructed: this
    # instance's configuration is the one loaded last (so the singleton of F015 is not in play) and its step must equal
    # its solo step; own configurations differ from the foreign one in arch version / security / memory architecture
    # (own configurations are PMSA: the one-step oracle models the MPU-off / MPU-on memory system; on VMSA with the MMU
    # off every data access is Strongly-ordered and an unaligned one faults, which the rows do not model -- a first
    # version of these units with a VMSA own configuration raised exactly that false alarm and was corrected)
    pairs = [(dict(arch=7), dict(arch=6, vmsa=True)), (dict(arch=7), dict(arch=7, vmsa=True)),
             (dict(arch=6), dict(arch=7, sec=False))]
    for i, (own, fc) in enumerate(pairs):
        rows_b = [r for r in ('LdrImmediateArmA1', 'StrRegisterT1', 'LdrexA1', 'MovRegisterArmA1', 'BxA1')
                  if r in ISA and ISA[r].arch <= own['arch']]
        for u in famcheck.family_units(set(ISA[r].family for r in rows_b), [own['arch']], T,
                                       only=rows_b if tier != 'quick' else rows_b[:3],
                                       tag='/isolation/after-foreign-stepped/%d' % i, foreign_before=fc,
                                       vmsa=own.get('vmsa', False)):
            us.append(u)
    # ... and (thorough tier) with this instance's MPU enabled (one symbolic region), where the memory architecture
    # decides every access
    for u in [] if tier == 'quick' else famcheck.family_units({ISA['LdrImmediateArmA1'].family}, [7], T, only=['LdrImmediateArmA1'],
                                   tag='/isolation/after-foreign-stepped/mpu', foreign_before=dict(arch=7, vmsa=True),
                                   mpu=1, mpu_rsize=[4], fix={'P': 1, 'U': 1, 'W': 0}):
        u.max_seconds = 3000
        us.append(u)
    return us


META = {
    'explanation': 'Bounded symbolic verification of the real code. (a) Determinism / snapshot independence: the '
                   'per-step scratch state (opcode, opcode_len, executed_opcode, changed_registers) is havocked with '
                   'fresh solver variables before emulate_cycle and the step must still equal the oracle step, which '
                   'is a function of configuration, architectural state and memory only -- so nothing executed before '
                   'a snapshot can influence the trace after it; a symbolic run is itself a function of its declared '
                   'inputs, and every counterexample is replayed in a fresh process; prehistory units execute the same '
                   'concrete instruction bits first in the other instruction set, or in the same one from a state with '
                   'unrelated flags and IT state, re-install the snapshot and require the step to match the oracle. (b) No global writes: all '
                   'mutable module-level objects and class-level data attributes of armulator.* (found by reflection) are snapshotted around the step '
                   'on every explored path and must be unchanged. (c) Isolation: a second instance is created between '
                   'construction and step. With an equal configuration the step is unaffected; together with (a) and '
                   '(b) every interleaving of two equally-configured instances gives each its solo trace (each step '
                   'reads and writes only the instance own objects). Construction isolation: an instance built after a '
                   'foreign instance whose configured reset values are arbitrary (symbolic file contents) starts in '
                   'exactly the state of an instance built alone. With a DIFFERENT configuration the step changes: '
                   'this is the module-level configuration singleton, a known finding (F015). after-foreign-stepped units: '
                   'a foreign instance of a different configuration is constructed and stepped BEFORE this instance is '
                   'constructed (so this instance configuration is the one loaded last); the step must equal the solo step.',
    'bounds': ['scratch havoc on a 38-row sample (quick) / every row (thorough), arch 7', 'thread-level schedules are '
               'outside the technique (sequential symbolic execution); interleavings at step granularity are covered '
               'by the frame argument'],
    'outside': ['data races between threads inside CPython', 'instances with different configurations (known finding)'],
    'stubs': stubs.STUBS_DOC,
    'trusted_base': ['z3', 'symx engine', 'reflection over module globals'],
    'assumptions': ['valid machine state'],
}


def main(tier, seed):
    lem = runner.run_lemmas(('sec',))
    meta = dict(META)
    meta['checker_cmd'] = './check C20 %s' % tier
    return runner.main_run('C20', tier, units(tier, seed), meta, lemma_results=lem)
