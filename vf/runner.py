"""Property runner: collects units, runs them on all cores, replays counterexamples on the
real code in fresh processes, applies the known-findings policy, writes evidence, sets exit code.

exit 0: every obligation discharged (or listed as an open known finding)
exit 1: a reproduced violation (VIOLATION line printed)
exit 2: inconclusive / harness error (nothing is claimed)
"""
import importlib
import json
import multiprocessing as mp
import os
import subprocess
import sys
import time
import traceback

VERIF = os.path.dirname(os.path.dirname(os.path.abspath(__file__)))
EVID = os.environ.get('VERIF_EVIDENCE_DIR') or os.path.join(VERIF, 'evidence')  # (redirected only by tools/seed_eval.py)
REPLAYS = os.path.join(EVID, 'replays')


class UnitSpec:
    def __init__(self, name, module, maker, kwargs=None, summaries=True, max_paths=200000, max_seconds=900,
                 weight=1.0, stubs=True, timeout_ms=60000, prefer='fresh', allow_vacuous=False):
        self.name = name
        self.module = module
        self.maker = maker
        self.kwargs = kwargs or {}
        self.summaries = summaries
        self.max_paths = max_paths
        self.max_seconds = max_seconds
        self.weight = weight
        self.stubs = stubs
        self.timeout_ms = timeout_ms
        self.prefer = prefer
        self.allow_vacuous = allow_vacuous

    def make(self):
        return getattr(importlib.import_module(self.module), self.maker)(**self.kwargs)

    def as_dict(self):
        return dict(name=self.name, module=self.module, maker=self.maker, kwargs=self.kwargs)


_lemma_state = {}


def _worker(spec):
    """runs in a pool process"""
    from vf import unit as U
    try:
        import armulator.armv6.arm_v6  # noqa: load all modules before stubbing
        from symx import stubs, summaries
        if spec.stubs:
            stubs.install()
        else:
            stubs.uninstall()
        if spec.summaries:
            summaries.install(_lemma_state.get('ok'))
        else:
            summaries.uninstall()
        fn = spec.make()
        r = U.run_unit(spec.name, fn, max_paths=spec.max_paths, max_seconds=spec.max_seconds,
                       timeout_ms=spec.timeout_ms, prefer=spec.prefer, allow_vacuous=spec.allow_vacuous)
        d = r.as_dict()
        d['spec'] = spec.as_dict()
        return d
    except BaseException as ex:  # harness error
        return {'name': spec.name, 'harness_error': '%s: %s\n%s' % (type(ex).__name__, ex, traceback.format_exc()),
                'spec': spec.as_dict(), 'paths': 0, 'obligations': 0, 'discharged': 0, 'failures': [],
                'inconclusive': [{'why': 'harness error'}], 'queries': 0, 'solver_s': 0, 'wall_s': 0,
                'functions': [], 'samples': [], 'outcomes': {}, 'distinct': 0}


def _init_pool(lemma_ok):
    _lemma_state['ok'] = lemma_ok
    sys.setrecursionlimit(10000)


_TIMINGS = None


def _timings():
    global _TIMINGS
    if _TIMINGS is None:
        try:
            with open(os.path.join(os.path.dirname(os.path.abspath(__file__)), 'timings.json')) as f:
                _TIMINGS = json.load(f)
        except (OSError, ValueError):
            _TIMINGS = {}
    return _TIMINGS


def run_specs(specs, lemma_ok=None, procs=None):
    procs = procs or min(16, os.cpu_count() or 1)
    if not os.environ.get('VERIF_SPEED'):
        # machine-speed factor for the solver budgets: measured once, in the parent, before the workers compete for
        # the cores (symx.core.speed_factor); the workers inherit it
        from symx import core as _core
        os.environ['VERIF_SPEED'] = '%.2f' % _core.speed_factor()
    # longest-processing-time-first: measured wall times of earlier runs (vf/timings.json, a scheduling hint only)
    # where known, the static weight otherwise
    tm = _timings()
    specs = sorted(specs, key=lambda s: -(tm.get(s.name, 0) or 5.0 * s.weight))
    if len(specs) == 1 or procs == 1:
        _init_pool(lemma_ok)
        return [_worker(s) for s in specs]
    ctxm = mp.get_context('fork')
    with ctxm.Pool(procs, initializer=_init_pool, initargs=(lemma_ok,), maxtasksperchild=8) as pool:
        return list(pool.imap_unordered(_worker, specs, chunksize=1))


def write_replay(pid, spec_dict, failure, idx):
    os.makedirs(REPLAYS, exist_ok=True)
    safe = ''.join(ch if ch.isalnum() or ch in '-_.' else '_' for ch in spec_dict['name'])[:80]
    path = os.path.join(REPLAYS, '%s-%s-%d.json' % (pid, safe, idx))
    with open(path, 'w') as f:
        json.dump({'property': pid, 'spec': spec_dict, 'inputs': failure['inputs'], 'claims': failure['claims'],
                   'notes': failure.get('notes', {}), 'events': failure.get('events', [])}, f, indent=1)
    return path


def replay_file(path, timeout=300):
    """re-run a counterexample on the real code in a fresh process; returns (reproduced: bool|None, text)"""
    env = dict(os.environ)
    env['PYTHONPATH'] = os.environ.get('VERIF_REPO', '/repo') + ':' + VERIF
    try:
        p = subprocess.run([sys.executable, '-m', 'vf.replay', path], cwd=VERIF, env=env, capture_output=True,
                           text=True, timeout=timeout)
    except subprocess.TimeoutExpired:
        # the real code did not return on the counterexample's inputs: reproduces a reported hang, nothing else
        return 'hang', 'replay did not terminate within %d s' % timeout
    out = p.stdout.strip().splitlines()
    last = out[-1] if out else ''
    if p.returncode == 1 and last.startswith('REPRODUCED'):
        return True, last
    if p.returncode == 0:
        return False, last
    return None, (p.stdout + p.stderr)[-2000:]


def load_known():
    p = os.path.join(VERIF, 'known_findings.json')
    if not os.path.exists(p):
        return []
    with open(p) as f:
        return json.load(f).get('findings', [])


def known_open(pid):
    return [k for k in load_known() if k.get('status') == 'open' and pid in k.get('properties', [k.get('property')])]


def confirm_known(pid):
    """for every open finding of this property: replay its committed witness on the real code.
    returns list of (finding, still_reproduces: bool|None)"""
    out = []
    for k in known_open(pid):
        w = k.get('witness')
        rep = None
        if w:
            rep, _ = replay_file(os.path.join(VERIF, w))
        out.append((k, rep))
    return out


def run_lemmas(cfgnames=('sec',)):
    """prove real-helper == summary for every summary; returns {summary: {'ok': bool, 'units': n, 'paths': n,
    'failed': [...]}}"""
    from vf import lemmas
    from symx import summaries
    us = lemmas.lemma_units(cfgnames)
    res = run_specs(us)
    out = {n: {'ok': True, 'units': 0, 'paths': 0, 'obligations': 0, 'failed': []} for n in summaries.NAMES}
    for d in res:
        n = lemmas.summary_of_unit(d['name'])
        if n not in out:
            out[n] = {'ok': True, 'units': 0, 'paths': 0, 'obligations': 0, 'failed': []}
        o = out[n]
        o['units'] += 1
        o['paths'] += d['paths']
        o['obligations'] += d['obligations']
        if d['failures'] or d['inconclusive'] or d.get('harness_error'):
            o['ok'] = False
            o['failed'].append({'unit': d['name'], 'claims': [f['claims'][:3] for f in d['failures']][:2],
                                'inconclusive': d['inconclusive'][:2]})
    for n, o in out.items():
        if o['units'] == 0:
            o['ok'] = False
    return out


def cross_total(results):
    """sampled re-check of discharged obligations by cvc5 (VERIF_CROSS=N: every N-th)"""
    tot = {}
    for d in results:
        for k, v in (d.get('cross') or {}).items():
            tot[k] = tot.get(k, 0) + v
    from symx import core
    return {'solver': core.CROSS_BIN if core.CROSS_EVERY else None, 'every': core.CROSS_EVERY,
            'time_limit_ms': core.CROSS_TLIMIT_MS, 'agree': tot.get('agree', 0), 'disagree': tot.get('disagree', 0),
            'no_answer': tot.get('noanswer', 0) + tot.get('error', 0), 'errors': tot.get('error', 0)}


def main_run(pid, tier, specs, meta, lemma_results=None):
    """run, triage, write evidence, return exit code"""
    t0 = time.time()
    seed = int(os.environ.get('VERIF_SEED', '0') or 0)
    lemma_ok = None
    if lemma_results is not None:
        lemma_ok = {k: v['ok'] for k, v in lemma_results.items()}
    results = run_specs(specs, lemma_ok)
    results.sort(key=lambda d: d['name'])
    violations = []
    nonrepro = []
    inconcl = []
    harness_errors = []
    known_seen = []
    import re
    kopen = known_open(pid)
    for d in results:
        if d.get('harness_error'):
            harness_errors.append((d['name'], d['harness_error']))
        for i, fl in enumerate(d['failures']):
            path = write_replay(pid, d['spec'], fl, i)
            rep, text = replay_file(path, timeout=(90 if any('Hang' in c for c in fl['claims']) else 300))
            fl['replay'] = path
            if rep == 'hang':
                rep = True if any('Hang' in c for c in fl['claims']) else None
            fl['reproduced'] = rep
            if rep is True:
                k = None
                for kf in kopen:
                    if re.search(kf['unit'], d['name']) and all(re.search(kf['claim'], c) for c in fl['claims']):
                        k = kf
                        break
                if k:
                    known_seen.append((k, d['name'], fl))
                else:
                    violations.append((d['name'], fl, path))
            else:
                nonrepro.append((d['name'], fl, text))
        for inc in d['inconclusive']:
            inconcl.append((d['name'], inc))
    wall = time.time() - t0
    tot = lambda k: sum(d.get(k, 0) for d in results)
    functions = sorted(set(f for d in results for f in d.get('functions', [])))
    samples = []
    for d in results:
        for s in d.get('samples', []):
            if len(samples) < 6:
                samples.append(s)
    if not samples:
        samples = [{'unit': d['name'], 'paths': d['paths'], 'obligations': d['obligations']} for d in results[:4]]
    ev = {
        'property_id': pid, 'tier': tier, 'seed': seed, 'level': 'other',
        'coverage': {
            'explanation': meta.get('explanation', ''),
            'evaluations': tot('paths'),
            'distinct_nontrivial': tot('distinct'),
            'rule': 'one evaluation = one explored path of one unit (a path condition over the symbolic inputs, '
                    'decided feasible by the solver); distinct_nontrivial counts distinct (unit, decision-vector) '
                    'pairs whose obligation did not simplify to true syntactically and needed a solver verdict',
            'samples': samples,
            'obligations': tot('obligations'), 'discharged': tot('discharged'),
            'checker_cmd': meta.get('checker_cmd', './check %s %s' % (pid, tier)),
            'trusted_base': meta.get('trusted_base', []),
            'exhaustive': False,
            'units': [{k: d[k] for k in ('name', 'paths', 'aborted', 'obligations', 'discharged', 'queries', 'solver_s',
                                          'wall_s', 'outcomes') if k in d} for d in results],
            'paths': tot('paths'), 'queries': tot('queries'), 'solver_s': round(tot('solver_s'), 2),
            'functions_encoded': functions,
            'bounds': meta.get('bounds', []), 'outside': meta.get('outside', []), 'stubs': meta.get('stubs', []),
            'lemmas': lemma_results or {},
            'second_solver': cross_total(results),
            'inconclusive': [{'unit': n, **i} for n, i in inconcl][:50],
            'non_reproducing': [{'unit': n, 'claims': f['claims']} for n, f, _ in nonrepro][:20],
            'known_findings_seen': sorted(set(k['id'] for k, _, _ in known_seen)),
            'known_findings_open': [k['id'] for k in kopen],
        },
        'assumptions': meta.get('assumptions', []),
        'wall_s': round(wall, 2),
        'violations': len(violations),
    }
    os.makedirs(EVID, exist_ok=True)
    with open(os.path.join(EVID, '%s.json' % pid), 'w') as f:
        json.dump(ev, f, indent=1)
    if os.environ.get('VERIF_DUMP_FUNCS'):
        # development aid (tools/gen_shard_files.py): which repository modules executed in which unit
        with open(os.environ['VERIF_DUMP_FUNCS'], 'w') as f:
            json.dump({d['name']: sorted(set(x.split(':')[0] for x in d.get('functions', []))) for d in results}, f)
    print('%s %s: units=%d paths=%d obligations=%d discharged=%d queries=%d solver=%.1fs wall=%.1fs' % (
        pid, tier, len(results), tot('paths'), tot('obligations'), tot('discharged'), tot('queries'),
        tot('solver_s'), wall))
    slow = sorted(results, key=lambda d: -d.get('wall_s', 0))[:5]
    print('slowest units: ' + ', '.join('%s %.0fs/%dp' % (d['name'], d.get('wall_s', 0), d['paths']) for d in slow))
    confirmed = confirm_known(pid)
    for kf, rep in confirmed:
        if rep is True or kf['id'] in set(k['id'] for k, _, _ in known_seen):
            print('KNOWN-FINDING: property=%s %s' % (pid, kf['what']))
        else:
            print('NOTE: open finding %s no longer reproduces on this tree (stale entry?): %s' % (kf['id'], kf['what']))
    for n, f, path in violations:
        brief = {k: v for k, v in f['inputs'].items() if not k.startswith(('R_', 'spsr_', 'elr_', 'mem'))}
        print('  unit %s: %s inputs=%s' % (n, f['claims'][:4], json.dumps(brief)[:400]))
        print('VIOLATION property=%s replay=%s' % (pid, path))
    rc = 0
    if violations:
        rc = 1
    elif harness_errors or nonrepro or inconcl:
        rc = 2
    for n, he in harness_errors:
        print('HARNESS-ERROR unit=%s\n%s' % (n, he))
    for n, f, text in nonrepro:
        print('NON-REPRODUCING counterexample unit=%s claims=%s (%s) -> engine/oracle suspect, nothing claimed' % (
            n, f['claims'][:4], text[-300:]))
    for n, inc in inconcl[:40]:
        print('INCONCLUSIVE unit=%s %s' % (n, inc))
    return rc
