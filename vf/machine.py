"""H-step harness: build a real ArmV6 whose state is symbolic (or concrete in replay mode), snapshot it,
and compare the post-state with an oracle state (spec.state.St)."""
import atexit
import json
import os
import shutil
import tempfile

import z3

from spec import pseudo as P
from spec.state import St, RNAMES, SPSRS, MODE
from symx import core
from symx.core import SymInt, SymBool, to_bv, in_range, U
from vf.unit import eq, holds

BV = z3.BitVecVal

_tmpdir = None
_cfg_cache = {}

BASE_CONFIG = {
    "reset_values": {"SCTLR": "0b01000000000001010000000001111001", "MIDR": "0b01000001000011111010011101100000",
                     "ACTLR": "0b00000000000000000000000000000111", "VBAR": "0b00000000000000000000000000000000"},
    "number_of_mpu_regions": 12, "have_security_ext": True, "have_virt_ext": False, "arch_version": 6,
    "jazelle_accepts_execution": False, "memory_system_architecture": "PMSA", "have_lpae": False, "have_mp_ext": False,
    "have_adv_simd_or_vfp": False, "have_thumbee": False, "have_jazelle": False,
    "implementation_supports_transient": False, "processor_id": 0, "is_armv7r_profile": False,
    "has_imp_def_reset_vector": False, "memory_list": [{"mem_type": "RAM", "beginning": 0, "end": 256}],
    "write_hsr_hsr_value_24": False, "write_hsr_23_22_cond": True, "dfsr_string_12": 1, "data_abort_hsr_9": 0,
    "data_abort_pmsa_change_dfar": True, "translation_walk_sd_l1descaddr_attrs_10": True,
    "translation_walk_sd_l1descaddr_hints_01": True, "coproc_accepted_pl0_undefined": True, "impdef_reset_vector": 0,
    "impdef_irq_vector": 24, "impdef_fiq_vector": 28,
}

WIDE = {'httbr': 64, 'ttbr0_64': 64, 'ttbr1_64': 64, 'vttbr': 64}
SKIP_ATTRS = {'_R', 'changed_registers', 'cpsr', 'elr_hyp', 'event_register'} | {'spsr_' + k for k in SPSRS}


def _tmp():
    global _tmpdir
    if _tmpdir is None or not os.path.isdir(_tmpdir):
        _tmpdir = tempfile.mkdtemp(prefix='vf-cfg-')
        atexit.register(shutil.rmtree, _tmpdir, True)
    return _tmpdir


def config_path(**ov):
    """write a configuration JSON (outside /repo and /verif) and return its path"""
    key = json.dumps(ov, sort_keys=True)
    p = _cfg_cache.get(key)
    if p and os.path.exists(p):
        return p
    cfg = json.loads(json.dumps(BASE_CONFIG))
    for k, v in ov.items():
        if k == 'reset_values':
            cfg['reset_values'].update(v)
        else:
            cfg[k] = v
    p = os.path.join(_tmp(), 'cfg-%d-%d.json' % (os.getpid(), len(_cfg_cache)))
    with open(p, 'w') as f:
        json.dump(cfg, f)
    _cfg_cache[key] = p
    return p


def std_cfg(arch=6, sec=True, virt=False, vmsa=False, lpae=False, **more):
    """(oracle cfg dict, repo config overrides)"""
    ov = dict(arch_version=arch, have_security_ext=sec, have_virt_ext=virt,
              memory_system_architecture='VMSA' if vmsa else 'PMSA', have_lpae=lpae)
    ov.update(more)
    cfg = dict(arch=arch, sec=sec, virt=virt, pmsa=not vmsa, lpae=lpae,
               impdef_irq_vector=ov.get('impdef_irq_vector', 24), impdef_fiq_vector=ov.get('impdef_fiq_vector', 28))
    return cfg, ov


def valid_modes(cfg):
    ms = ['usr', 'fiq', 'irq', 'svc', 'abt', 'und', 'sys']
    if cfg['sec']:
        ms.append('mon')
    if cfg['virt']:
        ms.append('hyp')
    return [MODE[m] for m in ms]


def pieces(env, name, width, mask, base):
    """bit-vector of `width` bits: symbolic (variable `name`) where mask bit = 1, constant `base` elsewhere,
    built as a concatenation so that extracts of constant bits simplify structurally"""
    if mask == 0:
        return BV(base, width)
    v = env.bvvar(name, width)
    if mask == (1 << width) - 1:
        return v
    parts = []
    i = width - 1
    while i >= 0:
        j = i
        m = (mask >> i) & 1
        while j - 1 >= 0 and ((mask >> (j - 1)) & 1) == m:
            j -= 1
        if m:
            parts.append(z3.Extract(i, j, v))
        else:
            parts.append(BV((base >> j) & ((1 << (i - j + 1)) - 1), i - j + 1))
        i = j - 1
    return z3.Concat(*parts) if len(parts) > 1 else parts[0]


class ReplayMem:
    """pass-1 memory for replays: sparse, records every address touched"""

    def __init__(self, content):
        self.content = dict(content)
        self.touched = set()
        self.memories = []

    def __getitem__(self, key):
        desc, size = key
        a = desc.paddress.physicaladdress
        v = 0
        for i in range(size):
            self.touched.add(a + i)
            v |= self.content.get(a + i, 0) << (8 * i)
        return v

    def __setitem__(self, key, value):
        desc, size = key
        a = desc.paddress.physicaladdress
        import struct
        struct.pack({1: 'B', 2: '<H', 4: '<I', 8: '<Q'}[size], value)
        for i in range(size):
            self.touched.add(a + i)
            self.content[a + i] = (value >> (8 * i)) & 0xFF

    def set_bits(self, *a):
        raise NotImplementedError()


GRAN = 64


def real_hub(content, touched):
    """a real MemoryControllerHub with RAM devices covering the touched addresses (64-byte granules, merged)"""
    from armulator.armv6.memory_controller_hub import MemoryControllerHub, MemoryController
    from armulator.armv6.memory_types import RAM
    grans = sorted(set(a // GRAN for a in touched if 0 <= a < (1 << 32)))
    hub = MemoryControllerHub()
    runs = []
    for g in grans:
        if runs and runs[-1][1] == g:
            runs[-1][1] = g + 1
        else:
            runs.append([g, g + 1])
    for a, b in runs:
        beg, end = a * GRAN, min(b * GRAN, 1 << 32)
        ram = RAM(end - beg)
        for x in range(beg, end):
            v = content.get(x, 0)
            if v:
                ram.memory_array[x - beg] = v
        hub.memories.append(MemoryController(ram, beg, end))
    return hub


class Machine:
    """opts:
      thumb: bool; mode: None (symbolic over valid modes) | mode name | list of names
      sym_sys: {attr: mask}  bits of control registers that are symbolic (others keep their reset value)
      set_sys: {attr: value} concrete overrides applied before sym_sys
      e_sym: CPSR.E symbolic (default False -> E = 0)
      j_sym: CPSR.J symbolic in Thumb state (ThumbEE); default J = 0
      it: 'none' (ITSTATE=0) | 'any' (any valid ITSTATE, Thumb only) | 'block' (inside an IT block) |
          'block:k' (inside a block whose condition has bits [3:1] = k)
      mem: 'sym'
    """

    def __init__(self, env, cfg, ov, **opts):
        from armulator.armv6.arm_v6 import ArmV6
        from armulator.armv6.registers import RName
        from symx.stubs import SymMem
        self.env = env
        self.cfg = cfg
        self.opts = opts
        thumb = opts.get('thumb', False)
        self.thumb = thumb
        arm = ArmV6(config_path(**ov))
        self.arm = arm
        regs = arm.registers
        self.RName = RName
        pre = St(cfg)
        pre.thumb = thumb
        # general registers
        for name in RNAMES:
            if name == 'PC':
                lowbits = 1 if thumb else 2
                hi = env.bvvar('R_PC_hi', 32 - lowbits)
                t = z3.Concat(hi, BV(0, lowbits)) if env.symbolic else BV(hi.as_long() << lowbits, 32)
            elif opts.get('reg_values') == 'distinct':
                # a fixed register file with pairwise distinct, bit-diverse values (decode checks: the word stays
                # symbolic, a wrong register number / immediate / shift extraction still changes the result)
                i = RNAMES.index(name)
                t = BV(((0x9E3779B1 * (i + 1)) ^ (0x01000193 * (i + 7) << 3)) & 0xFFFFFFFC, 32)
            else:
                t = env.bvvar('R_' + name, 32)
            pre.R[name] = t
            regs._R[RName[name]] = env.wrap(t)
        # CPSR
        mode = opts.get('mode')
        it_kind = opts.get('it', 'none')
        if thumb and it_kind == 'any':
            itv = env.bvvar('cpsr_it', 8)
        elif thumb and isinstance(it_kind, str) and it_kind.startswith('block'):
            # inside an IT block; 'block:k' pins ITSTATE[7:5] (the base condition without its low bit) to k --
            # a case split of 'any' that specialises the condition multiplexer of the oracle
            if ':' in it_kind:
                itv = pieces(env, 'cpsr_it', 8, 0x1F, int(it_kind.split(':')[1]) << 5)
            else:
                itv = env.bvvar('cpsr_it', 8)
        else:
            itv = BV(0, 8)
        evar = env.bvvar('cpsr_e', 1) if opts.get('e_sym', False) else BV(opts.get('e', 0), 1)
        if isinstance(mode, str):
            mv = BV(MODE[mode], 5)
        else:
            mv = env.bvvar('cpsr_m', 5)
        # j_sym: CPSR.J symbolic with J => T (ThumbEE state; reachable on the stock configuration through ENTERX, see
        # F041); Jazelle state (J = 1, T = 0) cannot be entered (switch_to_jazelle_execution is unimplemented)
        jv = env.bvvar('cpsr_j', 1) if (opts.get('j_sym') and thumb) else BV(0, 1)
        cpsr = z3.Concat(env.bvvar('cpsr_nzcvq', 5), z3.Extract(1, 0, itv), jv, BV(0, 4), env.bvvar('cpsr_ge', 4),
                         z3.Extract(7, 2, itv), evar, env.bvvar('cpsr_aif', 3), BV(1 if thumb else 0, 1), mv)
        pre.cpsr = cpsr
        regs.cpsr.value = env.wrap(cpsr)
        if not isinstance(mode, str):
            allowed = valid_modes(cfg) if mode is None else [MODE[m] for m in mode]
            env.assume(z3.Or(*[mv == m for m in allowed]))
        if thumb and it_kind == 'any':
            env.assume(z3.Or(itv == 0, z3.Extract(3, 0, itv) != 0))
        elif thumb and isinstance(it_kind, str) and it_kind.startswith('block'):
            env.assume(z3.Extract(3, 0, itv) != 0)
        for k in SPSRS:
            t = env.bvvar('spsr_' + k, 32)
            pre.spsr[k] = t
            setattr(regs, 'spsr_' + k, env.wrap(t))
        t = env.bvvar('elr_hyp', 32)
        pre.elr_hyp = t
        regs.elr_hyp = env.wrap(t)
        # control registers
        set_sys = dict(opts.get('set_sys', {}))
        sym_sys = opts.get('sym_sys', {})
        if 'sctlr' not in set_sys:
            set_sys['sctlr'] = regs.sctlr.value & ~1  # MPU / MMU off unless a unit asks otherwise
        if cfg['arch'] >= 7:
            # ARMv7: SCTLR.U reads-as-one (unaligned support is always on): part of the valid-state invariant
            set_sys['sctlr'] |= 1 << 22
            if 'sctlr' in sym_sys:
                sym_sys = dict(sym_sys)
                sym_sys['sctlr'] &= ~(1 << 22)
        for attr, val in self._sys_items(regs):
            width = WIDE.get(attr.split('[')[0], 32)
            base = set_sys.get(attr, val)
            mask = sym_sys.get(attr, 0)
            t = pieces(env, 'sys_' + attr, width, mask, base)
            if mask or attr in set_sys:
                self._sys_put(regs, attr, env.wrap(t))
            pre.sys[attr] = t
        if cfg.get('virt') and cfg.get('sec') and not isinstance(mode, str):
            # valid-state invariant: Hyp mode exists in Non-secure state only
            env.assume(z3.Implies(mv == MODE['hyp'], z3.Extract(0, 0, pre.sys['scr']) == 1))
        pre.flags['event_register'] = z3.BoolVal(False)
        pre.flags['is_wait_for_event'] = z3.BoolVal(False)
        pre.flags['is_wait_for_interrupt'] = z3.BoolVal(False)
        # memory
        if env.symbolic:
            mem0 = z3.Array('mem0', z3.BitVecSort(32), z3.BitVecSort(8))
            self.mem = SymMem(mem0)
            env.mems['mem0'] = self.mem
            self.mem0 = mem0
        else:
            content = {int(k): v for k, v in env.concrete.get('mem0', {}).items()}
            arr = z3.K(z3.BitVecSort(32), BV(0, 8))
            for a in sorted(content):
                arr = z3.Store(arr, BV(a, 32), BV(content[a], 8))
            self.mem0 = arr
            self.content0 = content
            self.mem = ReplayMem(content)
        arm.mem = self.mem
        pre.mem = self.mem0
        self.pre = pre
        self.snap0 = self.snapshot()

    # ------------------------------------------------------------------
    def place_instruction(self, word, length, at=None, thumb=None):
        """store the instruction word (z3 term, 16 or 32 bits) at PC (or at the address term `at`) in the
        *initial* memory"""
        pc = self.pre.R['PC'] if at is None else at
        thumb = self.thumb if thumb is None else thumb
        if length == 16:
            bs = [P.bits(word, 7, 0), P.bits(word, 15, 8)]
        elif thumb:
            bs = [P.bits(word, 23, 16), P.bits(word, 31, 24), P.bits(word, 7, 0), P.bits(word, 15, 8)]
        else:
            bs = [P.bits(word, 8 * i + 7, 8 * i) for i in range(4)]
        arr = self.mem0
        for i, b in enumerate(bs):
            arr = z3.Store(arr, z3.simplify(pc + i), b)
        self.mem0 = arr
        self.pre.mem = arr
        if self.env.symbolic:
            self.mem.array = arr
        else:
            pcv = z3.simplify(pc).as_long()
            for i, b in enumerate(bs):
                a = (pcv + i) & 0xFFFFFFFF
                self.content0[a] = z3.simplify(b).as_long()
                self.mem.content[a] = self.content0[a]

    def reinstall_pre(self):
        """put the machine back into its initial architectural state (registers, CPSR, SPSRs, system registers,
        flags, memory) -- whatever hidden per-instance state an earlier step left behind stays"""
        env, regs, pre = self.env, self.arm.registers, self.pre
        for name in RNAMES:
            regs._R[self.RName[name]] = env.wrap(pre.R[name])
        regs.cpsr.value = env.wrap(pre.cpsr)
        for k in SPSRS:
            setattr(regs, 'spsr_' + k, env.wrap(pre.spsr[k]))
        regs.elr_hyp = env.wrap(pre.elr_hyp)
        for attr, t in pre.sys.items():
            if z3.is_bool(t):
                continue
            cur = dict(self._sys_items(regs)).get(attr)
            if type(cur) in (bool,):
                self._sys_put(regs, attr, False)
            else:
                self._sys_put(regs, attr, env.wrap(t))
        regs.event_register = False
        self.arm.is_wait_for_event = False
        self.arm.is_wait_for_interrupt = False
        if env.symbolic:
            self.mem.array = self.mem0
        elif isinstance(self.arm.mem, ReplayMem):
            self.arm.mem.content = dict(self.content0)
        else:
            for mc in self.arm.mem.memories:
                for i in range(len(mc.mem.memory_array)):
                    mc.mem.memory_array[i] = self.content0.get(mc.beginning + i, 0)

    @staticmethod
    def _sys_items(regs):
        from armulator.armv6.all_registers.abstract_register import AbstractRegister
        out = []
        for attr, v in vars(regs).items():
            if attr in SKIP_ATTRS:
                continue
            if isinstance(v, AbstractRegister):
                out.append((attr, v.value))
            elif isinstance(v, list):
                for i, x in enumerate(v):
                    out.append(('%s[%d]' % (attr, i), x.value if isinstance(x, AbstractRegister) else x))
            elif type(v) in (int, SymInt):
                out.append((attr, v))
            elif type(v) in (bool, SymBool):
                out.append((attr, v))
        return out

    @staticmethod
    def _sys_put(regs, attr, value):
        from armulator.armv6.all_registers.abstract_register import AbstractRegister
        if '[' in attr:
            name, idx = attr[:-1].split('[')
            lst = getattr(regs, name)
            if isinstance(lst[int(idx)], AbstractRegister):
                lst[int(idx)].value = value
            else:
                lst[int(idx)] = value
        else:
            cur = getattr(regs, attr)
            if isinstance(cur, AbstractRegister):
                cur.value = value
            else:
                setattr(regs, attr, value)

    # ------------------------------------------------------------------
    def snapshot(self):
        regs = self.arm.registers
        snap = {}
        for name in RNAMES:
            snap['R.' + name] = regs._R[self.RName[name]]
        snap['cpsr'] = regs.cpsr.value
        for k in SPSRS:
            snap['spsr.' + k] = getattr(regs, 'spsr_' + k)
        snap['elr_hyp'] = regs.elr_hyp
        for attr, v in self._sys_items(regs):
            snap['sys.' + attr] = v
        snap['flag.event_register'] = regs.event_register
        snap['flag.is_wait_for_event'] = self.arm.is_wait_for_event
        snap['flag.is_wait_for_interrupt'] = self.arm.is_wait_for_interrupt
        return snap

    def compare(self, exp, skip=(), only=None):
        """claims: every snapshot component equals the oracle state's component (and is in range)"""
        snap = self.snapshot()
        cl = []
        snap0 = getattr(self, 'snap0', {})
        pre = getattr(self, 'pre_ident', self.pre)
        self.trivial = 0
        for k, v in snap.items():
            if k in skip or (only is not None and k not in only):
                continue
            if k in snap0 and snap0[k] is v:
                # the code left the very same object in place: unchanged iff the oracle also leaves it unchanged
                if k.startswith('sys.') and exp.sys.get(k[4:]) is pre.sys.get(k[4:]):
                    self.trivial += 1
                    continue
                if k.startswith('R.') and exp.R[k[2:]] is pre.R[k[2:]]:
                    self.trivial += 1
                    continue
                if k.startswith('spsr.') and exp.spsr[k[5:]] is pre.spsr[k[5:]]:
                    self.trivial += 1
                    continue
            if k.startswith('R.'):
                cl.append(eq(k, v, exp.R[k[2:]], 32))
            elif k == 'cpsr':
                cl.append(eq(k, v, exp.cpsr, 32))
            elif k.startswith('spsr.'):
                cl.append(eq(k, v, exp.spsr[k[5:]], 32))
            elif k == 'elr_hyp':
                cl.append(eq(k, v, exp.elr_hyp, 32))
            elif k.startswith('sys.'):
                a = k[4:]
                w = WIDE.get(a.split('[')[0], 32)
                if a in exp.sys:
                    t = exp.sys[a]
                    if z3.is_bool(t):
                        cl.append(holds(k, core.tobool(v) == t))
                    else:
                        cl.append(eq(k, v, t, w))
            elif k.startswith('flag.'):
                cl.append(holds(k, core.tobool(v) == exp.flags[k[5:]]))
        if 'mem' not in skip and (only is None or 'mem' in only):
            cl.append(self.mem_claim(exp.mem))
        return cl

    def mem_claim(self, expected):
        if self.env.symbolic:
            # extensional equality, stated pointwise at a fresh address (pure bit-vector reasoning after
            # select-over-store resolution): unsat of the negation for a free k <=> the arrays are equal
            if self.mem.array is expected:
                return holds('mem', True)
            k = z3.BitVec('mem_k', 32)
            return holds('mem', P.sel8(self.mem.array, k) == P.sel8(expected, k))
        hub = self.arm.mem
        bad = []
        if isinstance(hub, ReplayMem):
            addrs = set(hub.content) | hub.touched
            get = lambda a: hub.content.get(a, 0)
            for a in sorted(addrs):
                if not (0 <= a < (1 << 32)):
                    continue
                if z3.simplify(z3.Select(expected, BV(a, 32))).as_long() != get(a):
                    bad.append(a)
        else:
            for mc in hub.memories:
                arr = mc.mem.memory_array
                if len(arr) != mc.end - mc.beginning:
                    bad.append(('device resized', mc.beginning, len(arr)))
                for i in range(min(len(arr), mc.end - mc.beginning)):
                    if z3.simplify(z3.Select(expected, BV(mc.beginning + i, 32))).as_long() != arr[i]:
                        bad.append(mc.beginning + i)
        if bad:
            return ('mem', z3.BoolVal(False), 'bytes differ at %s' % (bad[:8],))
        return holds('mem', True)


def stepper(env, build, run):
    """symbolic mode: m = build(); run(m).  Replay mode: pass 1 on a recording sparse memory to learn the
    addresses touched, pass 2 from a fresh machine on a *real* MemoryControllerHub with RAM there."""
    m = build()
    if env.symbolic:
        run(m)
        return m
    try:
        run(m)
    except Exception:
        pass
    touched = set(m.mem.touched)
    m = build()
    hub = real_hub(m.content0, touched | set(m.content0))
    m.arm.mem = hub
    m.mem = hub
    run(m)
    return m
