"""C05: conditional execution -- the 16-entry condition table, and a failed condition makes the instruction a no-op."""
from symx import stubs
from vf import famcheck, runner, step
from vf.runner import UnitSpec


def units(tier, seed=0):
    us = [UnitSpec('condition_table/arm', 'vf.lemmas', 'mk_cond_lemma', {'thumb': False}, summaries=False),
          UnitSpec('condition_table/thumb', 'vf.lemmas', 'mk_cond_lemma', {'thumb': True}, summaries=False)]
    T = list(step.FAMILIES)
    step.load_tables(T)
    from spec.isa import ISA
    fams = set(e.family for e in ISA.values())
    archs = [7] if tier == 'quick' else [6, 7]
    fc = famcheck.family_units(fams, archs, T, tag='/failed-cond', failed_cond=True)
    for u in fc:
        u.allow_vacuous = True  # unconditional encodings have no failing condition
    return us + fc


META = {
    'explanation': 'Bounded symbolic verification of the real code. (a) ArmV6.condition_passed / current_cond with the '
                   'opcode (ARM cond field; Thumb B<c> T1/T3 fields; IT state) and N,Z,C,V symbolic equals '
                   'ConditionHolds() of the architecture for all 16 x 16 combinations (decided by the solver, not '
                   'enumerated). (b) For EVERY encoding row of every functional table: assuming the condition fails, '
                   'one step through the real emulate_cycle with all fields, registers, flags, memory symbolic leaves '
                   'the whole machine state unchanged except PC += length and the IT-state advance (oracle-free '
                   'frame statement). (c) A passing condition behaves as the unconditional instruction: implied by '
                   'the functional checks, whose oracle is the unconditional operation guarded by ConditionHolds.',
    'bounds': ['arch 7 (quick) / 6 and 7 (thorough)', 'rows of the integrated tables (listed in functions/units)'],
    'outside': ['conditional UNDEFINED words with a failing condition (IMPLEMENTATION DEFINED: NOP or Undefined)',
                'the unconditional (cond = 1111) ARM space'],
    'stubs': stubs.STUBS_DOC,
    'trusted_base': ['z3', 'symx engine', 'spec/pseudo.py condition table'],
    'assumptions': ['valid machine state'],
}


def main(tier, seed):
    lem = runner.run_lemmas(('sec',))
    meta = dict(META)
    meta['checker_cmd'] = './check C05 %s' % tier
    return runner.main_run('C05', tier, units(tier, seed), meta, lemma_results=lem)
