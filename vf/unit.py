"""Units: one harness function = one unit of solver work.

A unit function ``fn(env)`` builds its inputs through ``env.var`` (solver variables in symbolic
mode, model values in replay mode), runs the repository's code and returns a list of claims
``(label, z3 Bool)``.  In symbolic mode every explored path's claims are discharged by the solver
(`pc and not claim` must be unsat); a model is turned into a replay record which is re-run on the
real code with plain ints before anything is reported.
"""
import json
import os
import time
import traceback

import z3

from symx import core
from symx.core import SymInt, SymBool, to_bv, in_range


class Env:
    def __init__(self, concrete=None):
        self.concrete = concrete
        self.vars = {}
        self.notes = {}
        self.mems = {}

    @property
    def symbolic(self):
        return self.concrete is None

    def var(self, name, bits):
        if self.concrete is not None:
            return int(self.concrete.get(name, 0))
        if name in self.vars:
            v = self.vars[name][0]
        else:
            v = z3.BitVec(name, bits)
            self.vars[name] = (v, bits)
        return SymInt(z3.ZeroExt(1, v), 0, (1 << bits) - 1)

    def boolvar(self, name):
        """truth value usable by the code under test: SymBool (symbolic mode) / bool (replay)"""
        if self.concrete is not None:
            return bool(int(self.concrete.get(name, 0)))
        if name not in self.vars:
            self.vars[name] = (z3.BitVec(name, 1), 1)
        return core.SymBool(self.vars[name][0] == 1)

    def bvvar(self, name, bits):
        """raw z3 variable (or value in replay mode)"""
        if self.concrete is not None:
            return z3.BitVecVal(int(self.concrete.get(name, 0)), bits)
        if name not in self.vars:
            self.vars[name] = (z3.BitVec(name, bits), bits)
        return self.vars[name][0]

    def wrap(self, term):
        """z3 bit-vector term -> value usable by the code under test (SymInt, or int in replay mode)"""
        if self.concrete is not None:
            t = z3.simplify(term)
            assert z3.is_bv_value(t), t
            return t.as_long()
        return core.U(term)

    def assume(self, c):
        if self.concrete is not None:
            if not isinstance(c, bool):
                c = z3.is_true(z3.simplify(c.e if type(c) is SymBool else c))
            if not c:
                raise ReplayAssumptionFailed()
            return
        core.assume(c)

    def note(self, k, v):
        self.notes[k] = v


class ReplayAssumptionFailed(Exception):
    pass


def tv(x, w):
    """value from the code under test -> z3 term of width w"""
    return to_bv(x, w)


def eq(label, got, expected, w):
    """claim: got (code value) is in unsigned range w and equals expected (z3 term / int)"""
    if isinstance(expected, int):
        expected = z3.BitVecVal(expected, w)
    t = type(got)
    if got is None or not (t is int or t is bool or t is SymInt or t is SymBool):
        return (label, z3.BoolVal(False), 'non-integer value %r' % (got,))
    return (label, z3.And(in_range(got, w), to_bv(got, w) == expected))


def eqb(label, got, expected):
    """boolean-valued result (truthiness) equals expected z3 Bool"""
    return (label, core.tobool(got) == expected)


def holds(label, claim):
    if isinstance(claim, bool):
        claim = z3.BoolVal(claim)
    return (label, claim)


class UnitResult:
    def __init__(self, name):
        self.name = name
        self.paths = 0
        self.aborted = 0
        self.obligations = 0
        self.discharged = 0
        self.failures = []  # dicts
        self.inconclusive = []
        self.queries = 0
        self.solver_s = 0.0
        self.wall_s = 0.0
        self.functions = set()
        self.samples = []
        self.outcomes = {}
        self.distinct = set()
        self.cross = {}

    def ok(self):
        return not self.failures and not self.inconclusive

    def as_dict(self):
        return dict(name=self.name, paths=self.paths, aborted=self.aborted, obligations=self.obligations,
                    discharged=self.discharged, failures=self.failures, inconclusive=self.inconclusive,
                    queries=self.queries, solver_s=round(self.solver_s, 3), wall_s=round(self.wall_s, 3),
                    functions=sorted(self.functions), samples=self.samples, outcomes=self.outcomes,
                    distinct=len(self.distinct), cross=dict(self.cross))


def _selects(terms, name):
    """index terms of every Select(<array const name>, idx) occurring in the given z3 terms"""
    seen = set()
    out = []
    stack = list(terms)
    while stack:
        t = stack.pop()
        i = t.get_id()
        if i in seen:
            continue
        seen.add(i)
        if z3.is_app(t):
            if t.decl().kind() == z3.Z3_OP_SELECT and z3.is_const(t.arg(0)) and t.arg(0).decl().name() == name:
                out.append(t.arg(1))
            stack.extend(t.children())
    return out


def _model_inputs(model, env, claims=()):
    out = {}
    for name, (v, bits) in env.vars.items():
        out[name] = model.eval(v, model_completion=True).as_long()
    for name, mem in env.mems.items():
        base = z3.Array(name, z3.BitVecSort(32), z3.BitVecSort(8))
        content = {}
        for kind, a, size in mem.log:
            av = model.eval(a, model_completion=True).as_long()
            for i in range(size):
                x = (av + i) & 0xFFFFFFFF
                if x not in content:
                    content[x] = model.eval(z3.Select(base, z3.BitVecVal(x, 32)), model_completion=True).as_long()
        # addresses the oracle side reads (Select terms over the initial array inside the claims)
        for idx in _selects([c[1] for c in claims], name):
            x = model.eval(idx, model_completion=True).as_long()
            if x not in content:
                content[x] = model.eval(z3.Select(base, z3.BitVecVal(x, 32)), model_completion=True).as_long()
        out[name] = {str(k): v for k, v in sorted(content.items())}
    return out


_profile_funcs = None


def _profiler(frame, event, arg):
    if event == 'call':
        co = frame.f_code
        fn = co.co_filename
        if '/armulator/' in fn:
            _profile_funcs.add(fn.split('/armulator/', 1)[1][:-3].replace('/', '.') + ':' + co.co_name)


def run_unit(name, fn, max_paths=200000, max_seconds=600, sample_limit=2, trace_functions=True,
             max_failures=3, timeout_ms=60000, prefer='fresh', allow_vacuous=False):
    """symbolic exploration of fn(env); returns UnitResult"""
    import sys
    global _profile_funcs
    res = UnitResult(name)
    t0 = time.time()
    c = core.new_ctx(timeout_ms)
    c.prefer = prefer
    envbox = {}

    def body():
        env = Env()
        envbox['env'] = env
        return fn(env)

    adaptive = {'hard': set(), 'chunk': None}

    def on_path(r, ctx):
        env = envbox['env']
        if isinstance(r, Exception):
            if not from_code(r):
                if len(res.inconclusive) < 5:
                    res.inconclusive.append({'why': 'harness exception %s: %s @ %s' % (
                        type(r).__name__, r, ''.join(traceback.format_tb(r.__traceback__)[-3:])[-600:])})
                return
            claims = [('no unexpected exception', z3.BoolVal(False),
                       '%s: %s' % (type(r).__name__, r) + ' @ ' + _tb_tail(r))]
        else:
            claims = r or []
        res.outcomes[env.notes.get('outcome', 'ok' if not isinstance(r, Exception) else type(r).__name__)] = \
            res.outcomes.get(env.notes.get('outcome', 'ok' if not isinstance(r, Exception)
                                           else type(r).__name__), 0) + 1
        if VALUE_LEMMAS and len(claims) > 8 and not isinstance(r, Exception):
            eqs = value_lemmas(ctx, claims, res)
            if eqs:
                # the proved equalities join the path condition while this path's obligations are decided
                ctx.solver.push()
                for e_ in eqs:
                    ctx.solver.add(e_)
                try:
                    return decide_claims(claims, ctx, env)
                finally:
                    ctx.solver.pop()
        return decide_claims(claims, ctx, env)

    def decide_claims(claims, ctx, env):
        neg = []
        for cl in claims:
            neg.append(z3.Not(cl[1]))
        res.obligations += len(claims)
        if not claims:
            return
        disj = z3.simplify(z3.Or(*neg)) if len(neg) > 1 else z3.simplify(neg[0])
        nontrivial = not z3.is_false(disj)
        if nontrivial:
            res.distinct.add(hash((name, tuple(d['val'] if d['kind'] == 'b' else d['cur'] for d in ctx.stack))))
        if z3.is_false(disj):
            res.discharged += len(claims)
            r0 = z3.unsat
        else:
            # joint query first; if the solver cannot decide it, decide each negated claim on its own (equivalent
            # to the joint disjunction, and much cheaper for 30 memory / register claims); first sat model wins
            # joint obligation first; when the solver cannot decide a group of claims within the quick budget the
            # group is halved (equivalent to the disjunction; one hard claim among 40 costs ~2 log2(40) queries).
            # Claims found hard on an earlier path of this unit are decided on their own from the start.
            def decide(idxs):
                parts_ = [z3.simplify(neg[i]) for i in idxs]
                live = [i for i, sg in zip(idxs, parts_) if not z3.is_false(sg)]
                if not live:
                    return z3.unsat, None
                sg = z3.simplify(z3.Or(*[neg[i] for i in live])) if len(live) > 1 else z3.simplify(neg[live[0]])
                _t = time.time()
                ri, mi = ctx.model(sg, quick=len(live) > 1)
                if os.environ.get('VERIF_SLOW') and time.time() - _t > 1.0:
                    print('SLOW %.1fs %s %s' % (time.time() - _t, ri, [claims[i][0] for i in live][:6]), flush=True)
                if ri != z3.unknown:
                    return ri, mi
                if len(live) == 1:
                    adaptive['hard'].add(claims[live[0]][0])
                    return ri, mi
                # later paths of this unit (same claims, similar terms) start from groups of half this size
                adaptive['chunk'] = min(adaptive['chunk'] or len(live), max(1, len(live) // 2))
                mid = len(live) // 2
                ra, ma = decide(live[:mid])
                if ra == z3.sat:
                    return ra, ma
                rb, mb = decide(live[mid:])
                if rb == z3.sat:
                    return rb, mb
                return (z3.unknown if z3.unknown in (ra, rb) else z3.unsat), None

            alive = [i for i in range(len(claims)) if not z3.is_false(z3.simplify(neg[i]))]
            easy = [i for i in alive if claims[i][0] not in adaptive['hard']]
            hard = [i for i in alive if claims[i][0] in adaptive['hard']]
            r0, m = z3.unsat, None
            ch = adaptive['chunk'] or 12
            for grp in [easy[j:j + ch] for j in range(0, len(easy), ch)] + [[i] for i in hard]:
                if not grp:
                    continue
                ri, mi = decide(grp)
                if ri == z3.sat:
                    r0, m = ri, mi
                    break
                if ri == z3.unknown:
                    r0 = z3.unknown
        if r0 == z3.unsat:
            if len(res.samples) < sample_limit and nontrivial:
                res.samples.append({'unit': name, 'path_decisions': len(ctx.stack),
                                    'path_condition': [str(a)[:300] for a in ctx.pc()[-4:]],
                                    'claims': [cl[0] for cl in claims][:12],
                                    'obligation': 'pc AND NOT(%s) is unsat' % ' AND '.join(cl[0] for cl in claims)[:400]})
            if not z3.is_false(disj):
                res.discharged += len(claims)
            return
        if r0 == z3.unknown:
            res.inconclusive.append({'why': 'solver unknown', 'claims': [cl[0] for cl in claims][:10]})
            return
        # sat: find failing claims under this model
        failing = []
        for cl in claims:
            if not z3.is_true(m.eval(cl[1], model_completion=True)):
                failing.append(cl[0] + ((' [' + cl[2] + ']') if len(cl) > 2 else ''))
        res.discharged += len(claims) - max(len(failing), 1)
        if len(res.failures) < max_failures:
            res.failures.append({'unit': name, 'claims': failing, 'inputs': _model_inputs(m, env, claims),
                                 'notes': {k: str(v) for k, v in env.notes.items()},
                                 'events': [list(map(str, e)) for e in ctx.events][:10]})

    if trace_functions:
        _profile_funcs = res.functions
        sys.setprofile(_profiler)
    try:
        st = core.explore(body, on_path, max_paths=max_paths, max_seconds=max_seconds)
    finally:
        if trace_functions:
            sys.setprofile(None)
    res.paths = st.paths
    res.aborted = st.aborted
    res.queries = st.queries
    res.solver_s = st.solver_s
    res.cross = dict(getattr(st, 'cross', {}))
    if st.cross.get('disagree'):
        res.inconclusive.append({'why': 'second solver (cvc5) answered sat on %d obligation(s) z3 discharged'
                                        % st.cross['disagree']})
    if st.incomplete:
        res.inconclusive.append({'why': st.incomplete})
    # (unknown answers to branch-feasibility queries are conservative -- both alternatives are explored -- and do
    # not make the unit inconclusive; unknown obligations are recorded by on_path)
    res.branch_unknown = st.unknown
    if res.paths == 0:
        if allow_vacuous and not res.inconclusive:
            res.outcomes['vacuous (assumptions unsatisfiable for this row, e.g. an unconditional encoding)'] = 1
        else:
            res.inconclusive.append({'why': 'vacuous: no path reached the observation point'})
    res.wall_s = time.time() - t0
    return res


VALUE_LEMMAS = os.environ.get('VERIF_VALUE_LEMMAS', '0') == '1'  # measured: 0-25% on the long-pole rows; off by default


def value_lemmas(ctx, claims, res):
    """Each of the ~34 register claims of a step has the shape  If(c, v_code, old) == If(c', v_oracle, old)  and makes
    the solver re-derive v_code == v_oracle (the instruction's arithmetic) once per register.  The values written on
    this path by the code (recorded by the Registers.set summaries) and by the oracle are paired; a pair proved
    equal under the path condition is asserted while the claims are decided (sound: an equality valid under the path condition
    may be added to it).  Pairs that are not proved are simply
    not used -- nothing is reported from here."""
    try:
        from spec import state as ST
    except Exception:
        return []
    impl = []
    for v in ST.WRITES_IMPL:
        if not any(v.eq(x) for x in impl):
            impl.append(v)
    orac = []
    for v in ST.WRITES_OR:
        if not any(v.eq(x) for x in orac):
            orac.append(v)
    if os.environ.get('VERIF_SLOW'):
        print('LEMMA candidates impl=%d oracle=%d' % (len(impl), len(orac)), flush=True)
    if not impl or not orac or len(impl) > 4 or len(orac) > 6:
        return []
    pairs = []
    for a in impl:
        if any(a.eq(b) for b in orac):
            continue
        for b in orac:
            if b.size() != a.size():
                continue
            _t = time.time()
            r, _ = ctx.model(a != b, quick=True)
            if os.environ.get('VERIF_SLOW'):
                print('LEMMA try %s %.1fs' % (r, time.time() - _t), flush=True)
            if r == z3.unsat:
                pairs.append((a, b))
                res.lemmas = getattr(res, 'lemmas', 0) + 1
                break
    return [a == b for a, b in pairs]


def from_code(ex):
    """True if the exception is an outcome of the code under test (innermost frame in armulator, or a
    modelled interpreter exception); False if it comes from the harness / oracle / engine."""
    if getattr(ex, '_symx_modelled', False):
        return True
    tb = traceback.extract_tb(ex.__traceback__)
    if isinstance(ex, core.Hang):
        # the watchdog fires wherever the interpreter happens to be (usually inside the solver); the path belongs to
        # the code under test when one of its frames is active
        return any('/armulator/' in fr.filename for fr in tb)
    return bool(tb) and '/armulator/' in tb[-1].filename


def _tb_tail(ex):
    tb = traceback.extract_tb(ex.__traceback__)
    for fr in reversed(tb):
        if '/armulator/' in fr.filename:
            return '%s:%d' % (fr.filename.split('/armulator/', 1)[1], fr.lineno)
    if tb:
        return '%s:%d' % (os.path.basename(tb[-1].filename), tb[-1].lineno)
    return '?'


def replay_unit(fn, inputs):
    """run fn concretely on the real code (no stubs, no summaries). Returns list of failing claim labels,
    or None if the harness assumptions do not hold for these inputs."""
    env = Env(concrete=inputs)
    try:
        claims = fn(env)
    except ReplayAssumptionFailed:
        return None
    except Exception as ex:  # the real code raised
        if not from_code(ex):
            raise
        return ['no unexpected exception [%s: %s @ %s]' % (type(ex).__name__, ex, _tb_tail(ex))]
    bad = []
    for cl in claims or []:
        v = z3.simplify(cl[1])
        if not z3.is_true(v):
            bad.append(cl[0] + ((' [' + cl[2] + ']') if len(cl) > 2 else ''))
    return bad
