"""Replay a counterexample on the real code with plain ints (no stubs, no summaries).
exit 1 + 'REPRODUCED ...' if the recorded claims (or others) fail again; exit 0 otherwise."""
import contextlib
import importlib
import io
import json
import sys


def main(path, verbose=False):
    with open(path) as f:
        rec = json.load(f)
    spec = rec['spec']
    fn = getattr(importlib.import_module(spec['module']), spec['maker'])(**spec.get('kwargs', {}))
    from vf import unit as U
    buf = io.StringIO()
    with contextlib.redirect_stdout(buf):
        bad = U.replay_unit(fn, rec['inputs'])
    if verbose:
        print(buf.getvalue()[-2000:])
    if bad is None:
        print('NOT-REPRODUCED assumptions do not hold for the recorded inputs')
        return 0
    if bad:
        print('REPRODUCED property=%s unit=%s failing=%s inputs=%s' % (rec.get('property'), spec['name'], bad[:6],
                                                                     json.dumps(rec['inputs'])[:600]))
        return 1
    print('NOT-REPRODUCED all claims hold on the real code for the recorded inputs')
    return 0


if __name__ == '__main__':
    sys.exit(main(sys.argv[1], '-v' in sys.argv))
