"""C15: VMSA translation -- short-descriptor table walks give the right physical address, attributes or fault."""
import z3

from spec import pseudo as P
from spec import vmsa
from symx import core, stubs
from symx.core import to_bv, tobool
from vf import machine as MC
from vf import runner
from vf.runner import UnitSpec
from vf.unit import eq, holds

M_, HA_, EE_, TRE_, AFE_ = 0, 17, 25, 28, 29


def mk_sd(ispriv, iswrite, n_fixed=None, remap='sym', arch=7, sec=True, ee_sym=True, ttbr_mask=0xFFFFFFFF,
          l1type=None, l2type=None):
    """l1type / l2type: case split on the type bits [1:0] of the first / second level descriptor the walk reads (the
    cases together are all descriptors; they run as separate units in parallel)"""
    def fn(env):
        from armulator.armv6.arm_exceptions import DataAbortException
        from armulator.armv6.memory_attributes import MemType
        cfg, ov = MC.std_cfg(arch=arch, sec=sec, vmsa=True)
        sym = {'sctlr': ((1 << EE_) if ee_sym else 0) | (1 << AFE_), 'ttbr0_64': ttbr_mask, 'ttbr1_64': ttbr_mask,
               'ttbcr': 0x37 if n_fixed is None else 0x30, 'dacr': 0xFFFFFFFF, 'fcseidr': 0xFE000000}
        st = {'sctlr': (1 << M_) | (1 << TRE_) | (1 << 22), 'ttbcr': (n_fixed or 0)}
        if remap == 'sym':
            sym['prrr'] = 0xFF0FFFFF
            sym['nmrr'] = 0xFFFFFFFF
        else:
            st['prrr'], st['nmrr'] = remap
        m = MC.Machine(env, cfg, ov, thumb=False, mode=('svc' if ispriv else 'usr'), sym_sys=sym, set_sys=st)
        va = env.var('va', 32)
        VA = to_bv(va, 32)
        o = vmsa.translate_v_sd(m.pre, VA, z3.BoolVal(ispriv), z3.BoolVal(iswrite))
        env.assume(z3.Not(o['unpred']))
        env.assume(z3.Not(o['hw_af_update']))
        if l1type is not None:
            env.assume(o['l1type'] == l1type)
        if l2type is not None:
            env.assume(o['l2type'] == l2type)
        a = o['attrs']
        # TEX-remap corner cases outside the claim: reserved TRn = 11, IMPLEMENTATION DEFINED region 6
        env.assume(z3.Implies(z3.Not(o['fault']), z3.And(z3.Not(a['unpred']), z3.Not(a['impdef']))))
        exc = None
        res = None
        try:
            res = m.arm.translate_address(va, ispriv, iswrite, 4, True)
        except DataAbortException as ex:
            exc = ex
        cl = []
        E = m.pre.copy()
        if exc is not None:
            env.note('outcome', 'abort:' + exc.abort_type.name)
            cl.append(holds('abort only when the tables / DACR / AP deny the access', o['fault']))
            E.sys['dfar'] = o['mva']
            w = P.BV(1 if iswrite else 0, 1)
            s14 = P.cat(P.BV(0, 2), w, P.bits(o['fs'], 4, 4), P.BV(0, 2), o['domain'], P.bits(o['fs'], 3, 0))
            from spec.state import set_bits
            E.sys['dfsr'] = set_bits(E.sys['dfsr'], 13, 0, s14)
            cl += m.compare(E)
            return cl
        env.note('outcome', 'ok')
        cl.append(holds('translation succeeds only when the architecture allows the access', z3.Not(o['fault'])))
        cl.append(eq('physical address (40 bits)', res.paddress.physicaladdress, o['pa'], 40))
        cl.append(holds('NS', tobool(res.paddress.ns) == o['ns']))
        ty = {MemType.STRONGLY_ORDERED: vmsa.SO, MemType.DEVICE: vmsa.DEVICE, MemType.NORMAL: vmsa.NORMAL}[
            res.memattrs.type]
        cl.append(holds('memory type', a['type'] == ty))
        nrm = a['normal']
        for k in ('innerattrs', 'innerhints', 'outerattrs', 'outerhints'):
            cl.append(holds(k, z3.Implies(nrm, z3.And(core.in_range(getattr(res.memattrs, k), 2),
                                                      to_bv(getattr(res.memattrs, k), 2) == a[k]))))
        cl.append(holds('shareable', tobool(res.memattrs.shareable) == a['shareable']))
        cl.append(holds('outershareable', tobool(res.memattrs.outershareable) == a['outershareable']))
        cl += m.compare(E)
        return cl
    return fn


EAE_ = 31


def mk_ld(ispriv, iswrite, start=None, final=None, use1=None, sec=True, ee_sym=False, mair='sym', rgn_sym=False,
          t0sz=None, t1sz=None):
    """long-descriptor stage-1 walk (TTBCR.EAE = 1, LPAE configuration, not Hyp, no stage 2).
    start: level the walk starts at (1 / 2, case split on TxSZ<2:1>); final: level of the final descriptor (case split
    over the descriptor types read); use1: TTBR1 / TTBR0 selected"""
    def fn(env):
        from armulator.armv6.arm_exceptions import DataAbortException
        from armulator.armv6.memory_attributes import MemType
        cfg, ov = MC.std_cfg(arch=7, sec=sec, vmsa=True, lpae=True)
        tt = 0x00870087 | (0x3F003F00 if rgn_sym else 0)  # T0SZ, EPD0, T1SZ, EPD1 (+ IRGN/ORGN/SH of the walks)
        tbase = 1 << EAE_
        if t0sz is not None:  # case split on the region sizes (the walk's shift amounts become numerals)
            tt &= ~0x7
            tbase |= t0sz
        if t1sz is not None:
            tt &= ~0x70000
            tbase |= t1sz << 16
        sym = {'sctlr': ((1 << EE_) if ee_sym else 0) | (1 << AFE_), 'ttbr0_64': 0xFFFFFFFFF8,
               'ttbr1_64': 0xFFFFFFFFF8, 'ttbcr': tt}
        st = {'sctlr': (1 << M_) | (1 << TRE_) | (1 << 22), 'ttbcr': tbase, 'fcseidr': 0}
        if mair == 'sym':
            sym['mair0'] = 0xFFFFFFFF
            sym['mair1'] = 0xFFFFFFFF
        else:
            st['mair0'], st['mair1'] = mair
        m = MC.Machine(env, cfg, ov, thumb=False, mode=('svc' if ispriv else 'usr'), sym_sys=sym, set_sys=st)
        va = env.var('va', 32)
        VA = to_bv(va, 32)
        o = vmsa.translate_v_ld(m.pre, VA, z3.BoolVal(ispriv), z3.BoolVal(iswrite))
        env.assume(z3.Not(o['unpred']))
        if start is not None:
            env.assume(o['start2'] == (start == 2))
        if final is not None:
            env.assume(z3.Or(o['f_tr'], o['final'] == final))
            env.assume(z3.Implies(o['f_tr'], o['level'] == final))
        if use1 is not None:
            env.assume(o['use1'] == use1)
        a = o['attrs']
        env.assume(z3.Implies(z3.Not(o['fault']), a['sure']))
        exc = None
        res = None
        try:
            res = m.arm.translate_address(va, ispriv, iswrite, 4, True)
        except DataAbortException as ex:
            exc = ex
        except NotImplementedError as ex:
            exc = ex
        cl = []
        E = m.pre.copy()
        if exc is not None:
            # every long-descriptor fault report needs TLBLookupCameFromCacheMaintenance(), an unimplemented hook
            # of the repository: the outcome "not implemented" is accepted exactly where the architecture faults
            env.note('outcome', 'fault:' + type(exc).__name__)
            cl.append(holds('fault (reported or not-implemented) only when the tables deny the access', o['fault']))
            if isinstance(exc, NotImplementedError):
                return cl + m.compare(E, skip=('sys.dfar', 'sys.dfsr'))
            return cl
        env.note('outcome', 'ok')
        cl.append(holds('translation succeeds only when the architecture allows the access', z3.Not(o['fault'])))
        cl.append(eq('physical address (40 bits)', res.paddress.physicaladdress, o['pa'], 40))
        cl.append(holds('NS', tobool(res.paddress.ns) == o['ns']))
        ty = {MemType.STRONGLY_ORDERED: vmsa.SO, MemType.DEVICE: vmsa.DEVICE, MemType.NORMAL: vmsa.NORMAL}[
            res.memattrs.type]
        cl.append(holds('memory type', a['type'] == ty))
        nrm = a['normal']
        for k in ('innerattrs', 'innerhints', 'outerattrs', 'outerhints'):
            cl.append(holds(k, z3.Implies(nrm, z3.And(core.in_range(getattr(res.memattrs, k), 2),
                                                      to_bv(getattr(res.memattrs, k), 2) == a[k]))))
        cl.append(holds('shareable', tobool(res.memattrs.shareable) == a['shareable']))
        cl.append(holds('outershareable', tobool(res.memattrs.outershareable) == a['outershareable']))
        cl += m.compare(E)
        return cl
    return fn


def mk_off(arch=7):
    """MMU off: flat mapping"""
    def fn(env):
        cfg, ov = MC.std_cfg(arch=arch, vmsa=True)
        m = MC.Machine(env, cfg, ov, thumb=False, sym_sys={'fcseidr': 0xFE000000}, set_sys={'sctlr': 1 << 22})
        va = env.var('va', 32)
        VA = to_bv(va, 32)
        w = env.var('w', 1)
        res = m.arm.translate_address(va, True, bool(w), 4, True)
        pid = P.bits(m.pre.sys['fcseidr'], 31, 25)
        mva = z3.If(P.bits(VA, 31, 25) == 0, P.cat(pid, P.bits(VA, 24, 0)), VA)
        cl = [eq('flat physical address (after FCSE)', res.paddress.physicaladdress, mva, 32)]
        cl += m.compare(m.pre)
        return cl
    return fn


# an injective remap setting: TR = [01,10,10,00,10,10,(impdef),10] with distinct NMRR IR/OR pairs per Normal region,
# NS0 != NS1, NOS bits alternating -- a wrong TEX/C/B/S extraction changes the observed attributes
INJECTIVE = [0x55048A29 | (1 << 19), 0xE4D8936C]


def split_sd(name, kw, **us_kw):
    """one unit per first-level descriptor type (fault / page table / section / reserved-or-PXN section); the page
    table case again per second-level type (fault / large / small, small-XN)"""
    out = []
    for t1 in range(4):
        if t1 == 1:
            for t2 in range(4):
                out.append(UnitSpec('%s/l1=page-table/l2=%d' % (name, t2), 'vf.c15', 'mk_sd',
                                    dict(kw, l1type=1, l2type=t2), **us_kw))
        else:
            out.append(UnitSpec('%s/l1=%d' % (name, t1), 'vf.c15', 'mk_sd', dict(kw, l1type=t1), **us_kw))
    return out


def units(tier, seed=0):
    us = []
    for ispriv in (False, True):
        for iswrite in (False, True):
            tag = '%s/%s' % ('priv' if ispriv else 'user', 'w' if iswrite else 'r')
            if tier == 'quick':
                for n in ((0, 2) if (not ispriv and iswrite) else (0,)):
                    us += split_sd('sd_walk/N%d/%s' % (n, tag),
                                   dict(ispriv=ispriv, iswrite=iswrite, n_fixed=n, remap=INJECTIVE, ee_sym=False,
                                        ttbr_mask=0xFFFFFF80), max_paths=500000, max_seconds=3000, weight=10)
            else:
                for n in (0, 1, 2, 7):
                    us += split_sd('sd_walk/N%d/ee-sym/%s' % (n, tag),
                                   dict(ispriv=ispriv, iswrite=iswrite, n_fixed=n, remap=INJECTIVE, ee_sym=True,
                                        ttbr_mask=0xFFFFFF80), max_paths=2000000, max_seconds=7000, weight=20)
                us += split_sd('sd_walk/N0/remap-sym/%s' % tag,
                               dict(ispriv=ispriv, iswrite=iswrite, n_fixed=0, remap='sym', ee_sym=False,
                                    ttbr_mask=0xFFFFFF80), max_paths=2000000, max_seconds=10000, weight=50)
                us += split_sd('sd_walk/nosec/N1/%s' % tag,
                               dict(ispriv=ispriv, iswrite=iswrite, n_fixed=1, remap=INJECTIVE, sec=False,
                                    ee_sym=False, ttbr_mask=0xFFFFFF80), max_paths=500000, max_seconds=5000, weight=10)
    us.append(UnitSpec('mmu_off', 'vf.c15', 'mk_off', {}))
    return us


META = {
    'explanation': 'Bounded symbolic verification of the real ArmV6.translate_address_v / translation_table_walk_sd / '
                   'check_domain / check_permission / data_abort / encode_sdfsr / remapped_tex_decode / fcse_translate: '
                   'the page tables ARE the symbolic memory array (every descriptor word at every address arbitrary), '
                   'TTBR0/1, TTBCR.{N,PD0,PD1}, DACR, SCTLR.{AFE,EE}, FCSE PID, PRRR/NMRR and the virtual address are '
                   'symbolic; privilege and direction case-split. Output address (40 bit), NS, memory type/attributes, '
                   'or the fault with DFSR.{FS,domain,WnR} and DFAR, are compared with the B3 pseudocode oracle.',
    'bounds': ['short-descriptor format, stage 1, SCTLR.TRE = 1, hardware access-flag update off',
               'quick: TTBCR.N in {0,2}, SCTLR.EE = 0, one injective PRRR/NMRR setting, TTBR attribute bits [6:0] fixed; thorough: N in {0,1,2,7} with EE symbolic, PRRR/NMRR fully symbolic for N = 0, and a no-security-extension configuration'],
    'outside': ['SCTLR.TRE = 0 (remap_regs_have_reset_values is a NotImplementedError stub)', 'hardware access flag '
                'update (mem.set_bits stub)', 'long-descriptor format and stage 2 (LPAE / virtualization): every fault '
                'path there ends in the tlb_lookup_came_from_cache_maintenance stub', 'reserved TRn=11 / region 6'],
    'stubs': stubs.STUBS_DOC,
    'trusted_base': ['z3', 'symx engine', 'spec/vmsa.py transcription of DDI 0406C B3.19'],
    'assumptions': ['valid machine state; domain access 10 and AP encodings the architecture calls UNPREDICTABLE '
                    'excluded'],
}


def main(tier, seed):
    lem = runner.run_lemmas(('sec', 'nosec') if tier == 'thorough' else ('sec',))
    meta = dict(META)
    meta['checker_cmd'] = './check C15 %s' % tier
    return runner.main_run('C15', tier, units(tier, seed), meta, lemma_results=lem)
