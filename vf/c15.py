"""C15: VMSA translation -- short- and long-descriptor table walks give the right physical address, attributes or
fault."""
import z3

from spec import pseudo as P
from spec import vmsa
from symx import core, stubs
from symx.core import to_bv, tobool
from vf import machine as MC
from vf import runner
from vf.runner import UnitSpec
from vf.unit import eq, holds

M_, HA_, EE_, TRE_, AFE_ = 0, 17, 25, 28, 29


def mk_sd(ispriv, iswrite, n_fixed=None, remap='sym', arch=7, sec=True, ee_sym=True, ttbr_mask=0xFFFFFFFF,
          l1type=None, l2type=None, ttbr=None):
    """l1type / l2type: case split on the type bits [1:0] of the first / second level descriptor the walk reads (the
    cases together are all descriptors; they run as separate units in parallel)"""
    def fn(env):
        from armulator.armv6.arm_exceptions import DataAbortException
        from armulator.armv6.memory_attributes import MemType
        cfg, ov = MC.std_cfg(arch=arch, sec=sec, vmsa=True)
        sym = {'sctlr': ((1 << EE_) if ee_sym else 0) | (1 << AFE_), 'ttbr0_64': ttbr_mask, 'ttbr1_64': ttbr_mask,
               'ttbcr': 0x37 if n_fixed is None else 0x30, 'dacr': 0xFFFFFFFF, 'fcseidr': 0xFE000000}
        st = {'sctlr': (1 << M_) | (1 << TRE_) | (1 << 22), 'ttbcr': (n_fixed or 0)}
        if remap == 'sym':
            sym['prrr'] = 0xFF0FFFFF
            sym['nmrr'] = 0xFFFFFFFF
        else:
            st['prrr'], st['nmrr'] = remap
        m = MC.Machine(env, cfg, ov, thumb=False, mode=('svc' if ispriv else 'usr'), sym_sys=sym, set_sys=st)
        va = env.var('va', 32)
        VA = to_bv(va, 32)
        o = vmsa.translate_v_sd(m.pre, VA, z3.BoolVal(ispriv), z3.BoolVal(iswrite))
        env.assume(z3.Not(o['unpred']))
        env.assume(z3.Not(o['hw_af_update']))
        if ttbr is not None:  # case split: the walk goes through TTBR0 / TTBR1
            env.assume(o['use0'] == (ttbr == 0))
        if l1type is not None:
            env.assume(o['l1type'] == l1type)
        if l2type is not None:
            env.assume(o['l2type'] == l2type)
        a = o['attrs']
        # TEX-remap corner cases outside the claim: reserved TRn = 11, IMPLEMENTATION DEFINED region 6
        env.assume(z3.Implies(z3.Not(o['fault']), z3.And(z3.Not(a['unpred']), z3.Not(a['impdef']))))
        exc = None
        res = None
        try:
            res = m.arm.translate_address(va, ispriv, iswrite, 4, True)
        except DataAbortException as ex:
            exc = ex
        cl = []
        E = m.pre.copy()
        if exc is not None:
            env.note('outcome', 'abort:' + exc.abort_type.name)
            cl.append(holds('abort only when the tables / DACR / AP deny the access', o['fault']))
            E.sys['dfar'] = o['mva']
            w = P.BV(1 if iswrite else 0, 1)
            s14 = P.cat(P.BV(0, 2), w, P.bits(o['fs'], 4, 4), P.BV(0, 2), o['domain'], P.bits(o['fs'], 3, 0))
            from spec.state import set_bits
            E.sys['dfsr'] = set_bits(E.sys['dfsr'], 13, 0, s14)
            cl += m.compare(E)
            return cl
        env.note('outcome', 'ok')
        cl.append(holds('translation succeeds only when the architecture allows the access', z3.Not(o['fault'])))
        cl.append(eq('physical address (40 bits)', res.paddress.physicaladdress, o['pa'], 40))
        cl.append(holds('NS', tobool(res.paddress.ns) == o['ns']))
        ty = {MemType.STRONGLY_ORDERED: vmsa.SO, MemType.DEVICE: vmsa.DEVICE, MemType.NORMAL: vmsa.NORMAL}[
            res.memattrs.type]
        cl.append(holds('memory type', a['type'] == ty))
        nrm = a['normal']
        for k in ('innerattrs', 'innerhints', 'outerattrs', 'outerhints'):
            cl.append(holds(k, z3.Implies(nrm, z3.And(core.in_range(getattr(res.memattrs, k), 2),
                                                      to_bv(getattr(res.memattrs, k), 2) == a[k]))))
        cl.append(holds('shareable', tobool(res.memattrs.shareable) == a['shareable']))
        cl.append(holds('outershareable', tobool(res.memattrs.outershareable) == a['outershareable']))
        cl += m.compare(E)
        return cl
    return fn


EAE_ = 31


def mk_ld(ispriv, iswrite, start=None, final=None, use1=None, sec=True, ee_sym=False, mair='sym', rgn_sym=False,
          t0sz=None, t1sz=None, focus=None, attrindx=None, hyp=False):
    """long-descriptor stage-1 walk (TTBCR.EAE = 1, LPAE configuration, not Hyp, no stage 2).
    start: level the walk starts at (1 / 2, case split on TxSZ<2:1>); final: level of the final descriptor (case split
    over the descriptor types read); use1: TTBR1 / TTBR0 selected; t0sz / t1sz: TTBCR.T0SZ / T1SZ pinned (the shift
    amounts of the walk become numerals); focus: which hierarchical-control bits of the TABLE descriptors passed
    through are symbolic -- 'ap' (APTable), 'ns' (NSTable), 'xn' (XNTable, PXNTable) -- the others being 0 (the
    walk forks on each of the five bits at every table level; None = all symbolic); attrindx: AttrIndx of the final
    descriptor pinned"""
    def fn(env):
        from armulator.armv6.arm_exceptions import DataAbortException
        from armulator.armv6.memory_attributes import MemType
        cfg, ov = MC.std_cfg(arch=7, sec=sec, vmsa=True, lpae=True, virt=hyp)
        tt = 0x00870087 | (0x3F003F00 if rgn_sym else 0)  # T0SZ, EPD0, T1SZ, EPD1 (+ IRGN/ORGN/SH of the walks)
        tbase = 1 << EAE_
        if t0sz is not None:  # case split on the region sizes (the walk's shift amounts become numerals)
            tt &= ~0x7
            tbase |= t0sz
        if t1sz is not None:
            tt &= ~0x70000
            tbase |= t1sz << 16
        sym = {'sctlr': ((1 << EE_) if ee_sym else 0) | (1 << AFE_), 'ttbr0_64': 0xFFFFFFFFF8,
               'ttbr1_64': 0xFFFFFFFFF8, 'ttbcr': tt}
        st = {'sctlr': (1 << M_) | (1 << TRE_) | (1 << 22), 'ttbcr': tbase, 'fcseidr': 0}
        mregs = ('hmair0', 'hmair1') if hyp else ('mair0', 'mair1')
        if mair == 'sym':
            sym[mregs[0]] = 0xFFFFFFFF
            sym[mregs[1]] = 0xFFFFFFFF
        else:
            st[mregs[0]], st[mregs[1]] = mair
        if hyp:
            # Hyp-mode stage 1: HTTBR / HTCR.T0SZ / HSCTLR.{M,EE} / HMAIRn; Non-secure state
            st.update(scr=1, hsctlr=1, htcr=(t0sz or 0))
            sym.update(httbr=0xFFFFFFFFF8, hsctlr=((1 << EE_) if ee_sym else 0), htcr=(0 if t0sz is not None else 7))
        m = MC.Machine(env, cfg, ov, thumb=False, mode=('hyp' if hyp else 'svc' if ispriv else 'usr'), sym_sys=sym,
                       set_sys=st)
        va = env.var('va', 32)
        VA = to_bv(va, 32)
        o = vmsa.translate_v_ld(m.pre, VA, z3.BoolVal(ispriv), z3.BoolVal(iswrite), hyp=hyp)
        env.assume(z3.Not(o['unpred']))
        if start is not None:
            env.assume(o['start2'] == (start == 2))
        if final is not None:
            fl = z3.If(o['start2'], P.BV(2, 2), P.BV(1, 2)) if final == 'start' else P.BV(final, 2)
            env.assume(z3.Or(o['f_tr'], o['final'] == fl))
            env.assume(z3.Implies(o['f_tr'], o['level'] == fl))
        if use1 is not None:
            env.assume(o['use1'] == use1)
        if focus is not None:
            keep = {'ap': (62, 61), 'ns': (63,), 'xn': (60, 59)}[focus]
            for is_tab, d in o['tables']:
                for b in (63, 62, 61, 60, 59):
                    if b not in keep:
                        env.assume(z3.Implies(is_tab, z3.Not(P.bit(d, b))))
        if attrindx is not None:
            env.assume(z3.Or(o['f_tr'], o['attrindx'] == attrindx))
        a = o['attrs']
        env.assume(z3.Implies(z3.Not(o['fault']), a['sure']))
        exc = None
        res = None
        try:
            res = m.arm.translate_address(va, ispriv, iswrite, 4, True)
        except DataAbortException as ex:
            exc = ex
        except NotImplementedError as ex:
            exc = ex
        cl = []
        E = m.pre.copy()
        if exc is not None:
            # every long-descriptor fault report needs TLBLookupCameFromCacheMaintenance(), an unimplemented hook
            # of the repository: the outcome "not implemented" is accepted exactly where the architecture faults
            env.note('outcome', 'fault:' + type(exc).__name__)
            cl.append(holds('fault (reported or not-implemented) only when the tables deny the access', o['fault']))
            if isinstance(exc, NotImplementedError):
                return cl + m.compare(E, skip=('sys.dfar', 'sys.dfsr', 'sys.hdfar', 'sys.hsr', 'sys.hpfar'))
            return cl
        env.note('outcome', 'ok')
        cl.append(holds('translation succeeds only when the architecture allows the access', z3.Not(o['fault'])))
        cl.append(eq('physical address (40 bits)', res.paddress.physicaladdress, o['pa'], 40))
        cl.append(holds('NS', tobool(res.paddress.ns) == o['ns']))
        ty = {MemType.STRONGLY_ORDERED: vmsa.SO, MemType.DEVICE: vmsa.DEVICE, MemType.NORMAL: vmsa.NORMAL}[
            res.memattrs.type]
        cl.append(holds('memory type', a['type'] == ty))
        nrm = a['normal']
        for k in ('innerattrs', 'innerhints', 'outerattrs', 'outerhints'):
            cl.append(holds(k, z3.Implies(nrm, z3.And(core.in_range(getattr(res.memattrs, k), 2),
                                                      to_bv(getattr(res.memattrs, k), 2) == a[k]))))
        cl.append(holds('shareable', tobool(res.memattrs.shareable) == a['shareable']))
        cl.append(holds('outershareable', tobool(res.memattrs.outershareable) == a['outershareable']))
        cl += m.compare(E)
        return cl
    return fn


def mk_off(arch=7):
    """MMU off: flat mapping"""
    def fn(env):
        cfg, ov = MC.std_cfg(arch=arch, vmsa=True)
        m = MC.Machine(env, cfg, ov, thumb=False, sym_sys={'fcseidr': 0xFE000000}, set_sys={'sctlr': 1 << 22})
        va = env.var('va', 32)
        VA = to_bv(va, 32)
        w = env.var('w', 1)
        res = m.arm.translate_address(va, True, bool(w), 4, True)
        pid = P.bits(m.pre.sys['fcseidr'], 31, 25)
        mva = z3.If(P.bits(VA, 31, 25) == 0, P.cat(pid, P.bits(VA, 24, 0)), VA)
        cl = [eq('flat physical address (after FCSE)', res.paddress.physicaladdress, mva, 32)]
        cl += m.compare(m.pre)
        return cl
    return fn


# an injective remap setting: TR = [01,10,10,00,10,10,(impdef),10] with distinct NMRR IR/OR pairs per Normal region,
# NS0 != NS1, NOS bits alternating -- a wrong TEX/C/B/S extraction changes the observed attributes
INJECTIVE = [0x55048A29 | (1 << 19), 0xE4D8936C]


def split_sd(name, kw, **us_kw):
    """one unit per first-level descriptor type (fault / page table / section / reserved-or-PXN section); the page
    table case again per second-level type (fault / large / small, small-XN)"""
    out = []
    for t1 in range(4):
        if t1 == 1:
            for t2 in range(4):
                out.append(UnitSpec('%s/l1=page-table/l2=%d' % (name, t2), 'vf.c15', 'mk_sd',
                                    dict(kw, l1type=1, l2type=t2), **us_kw))
        else:
            out.append(UnitSpec('%s/l1=%d' % (name, t1), 'vf.c15', 'mk_sd', dict(kw, l1type=t1), **us_kw))
    return out


def units(tier, seed=0):
    us = []
    for ispriv in (False, True):
        for iswrite in (False, True):
            tag = '%s/%s' % ('priv' if ispriv else 'user', 'w' if iswrite else 'r')
            if tier == 'quick':
                # N = 0 for two of the four (privilege, direction) cases, N = 2 (TTBR0/TTBR1 split) for user writes,
                # the walk through each TTBR being its own unit
                if (ispriv, iswrite) in ((False, False), (True, True)):
                    us += split_sd('sd_walk/N0/%s' % tag,
                                   dict(ispriv=ispriv, iswrite=iswrite, n_fixed=0, remap=INJECTIVE, ee_sym=False,
                                        ttbr_mask=0xFFFFFF80), max_paths=500000, max_seconds=3000, weight=10)
                if (ispriv, iswrite) == (False, True):
                    us += split_sd('sd_walk/N2/ttbr0/%s' % tag,
                                   dict(ispriv=ispriv, iswrite=iswrite, n_fixed=2, remap=INJECTIVE, ee_sym=False,
                                        ttbr_mask=0xFFFFFF80, ttbr=0), max_paths=500000, max_seconds=3000, weight=10)
                    # through TTBR1 (measured ~1.5x the cost of the TTBR0 walks): sections and small pages
                    us += [u for u in split_sd('sd_walk/N2/ttbr1/%s' % tag,
                                               dict(ispriv=ispriv, iswrite=iswrite, n_fixed=2, remap=INJECTIVE,
                                                    ee_sym=False, ttbr_mask=0xFFFFFF80, ttbr=1), max_paths=500000,
                                               max_seconds=3000, weight=10)
                           if u.name.endswith(('/l1=2', '/l2=2', '/l1=0'))]
            else:
                for n in (0, 1, 2, 7):
                    us += split_sd('sd_walk/N%d/ee-sym/%s' % (n, tag),
                                   dict(ispriv=ispriv, iswrite=iswrite, n_fixed=n, remap=INJECTIVE, ee_sym=True,
                                        ttbr_mask=0xFFFFFF80), max_paths=2000000, max_seconds=7000, weight=20)
                us += split_sd('sd_walk/N0/remap-sym/%s' % tag,
                               dict(ispriv=ispriv, iswrite=iswrite, n_fixed=0, remap='sym', ee_sym=False,
                                    ttbr_mask=0xFFFFFF80), max_paths=2000000, max_seconds=10000, weight=50)
                us += split_sd('sd_walk/nosec/N1/%s' % tag,
                               dict(ispriv=ispriv, iswrite=iswrite, n_fixed=1, remap=INJECTIVE, sec=False,
                                    ee_sym=False, ttbr_mask=0xFFFFFF80), max_paths=500000, max_seconds=5000, weight=10)
    us.append(UnitSpec('mmu_off', 'vf.c15', 'mk_off', {}))
    us += ld_units(tier)
    return us


# MAIR0/1 with eight pairwise distinct, fully specified attribute encodings (Strongly-ordered, Device, Normal
# non-cacheable, write-through / write-back with distinct allocation hints): a wrong AttrIndx extraction or a wrong
# MAIR byte selection changes the observed attributes
MAIR_INJECTIVE = [0xFF440400, 0xA9C4C8BB]
PW = [(True, False), (False, True), (False, False), (True, True)]


def ld_units(tier):
    """long-descriptor stage-1 walks (LPAE configuration).  Every unit pins TTBCR.T0SZ/T1SZ and a shape of the walk
    (level of the final descriptor, which table-control bits are symbolic) -- see mk_ld"""
    us = []

    def add(tag, pw, **kw):
        ispriv, iswrite = PW[pw % 4]
        assert ispriv or not kw.get('hyp')
        name = 'ld_walk/%s/%s/%s' % (tag, 'priv' if ispriv else 'user', 'w' if iswrite else 'r')
        us.append(UnitSpec(name, 'vf.c15', 'mk_ld', dict(kw, ispriv=ispriv, iswrite=iswrite), max_paths=500000,
                           max_seconds=3000, weight=8))
    if tier == 'quick':
        add('T0=0,T1=0/final=start/mair-sym', 0, t0sz=0, t1sz=0, final='start')
        add('T0=1,T1=2/final=2/ap-table', 1, t0sz=1, t1sz=2, final=2, focus='ap', mair=MAIR_INJECTIVE)
        add('T0=2,T1=3/final=3/ap-table/attr5', 2, t0sz=2, t1sz=3, final=3, focus='ap', attrindx=5,
            mair=MAIR_INJECTIVE)
        add('T0=0,T1=5/final=2/ns-table', 3, t0sz=0, t1sz=5, final=2, focus='ns', mair=MAIR_INJECTIVE)
        add('T0=3,T1=0/final=3/xn-table/attr1', 0, t0sz=3, t1sz=0, final=3, focus='xn', attrindx=1,
            mair=MAIR_INJECTIVE)
        add('T0=7,T1=7/final=start', 1, t0sz=7, t1sz=7, final='start', mair=MAIR_INJECTIVE)
        add('T0=4,T1=4/final=3/ns-table/attr2', 3, t0sz=4, t1sz=4, final=3, focus='ns', attrindx=2,
            mair=MAIR_INJECTIVE)
        add('T0=0,T1=1/final=1/ap-table/attr7', 2, t0sz=0, t1sz=1, final=1, attrindx=7, mair=MAIR_INJECTIVE)
        add('hyp/T0=0/final=start', 3, t0sz=0, final='start', hyp=True, mair=MAIR_INJECTIVE)
        add('hyp/T0=2/final=3/xn-table/attr6', 0, t0sz=2, final=3, focus='xn', attrindx=6, hyp=True,
            mair=MAIR_INJECTIVE)
        return us
    i = 0
    for t0 in range(8):
        for t1 in range(8):
            # every pair of region sizes: walks that end at their first level (block at level 1 / 2)
            add('T0=%d,T1=%d/final=start' % (t0, t1), i, t0sz=t0, t1sz=t1, final='start',
                mair=('sym' if (t0 + t1) % 4 == 0 else MAIR_INJECTIVE))
            i += 1
    deep = [(0, 0), (1, 2), (2, 3), (0, 5), (3, 0), (7, 7), (4, 4), (1, 0)]
    foci = ['ap', 'ns', 'xn']
    for j, (t0, t1) in enumerate(deep):
        for pw in range(4):
            f = foci[(j + pw) % 3]
            add('T0=%d,T1=%d/final=2/%s-table' % (t0, t1, f), pw, t0sz=t0, t1sz=t1, final=2, focus=f,
                mair=MAIR_INJECTIVE)
            f = foci[(j + pw + 1) % 3]
            k = (3 * j + pw) % 8
            add('T0=%d,T1=%d/final=3/%s-table/attr%d' % (t0, t1, f, k), pw, t0sz=t0, t1sz=t1, final=3, focus=f,
                attrindx=k, mair=MAIR_INJECTIVE)
    for pw in range(4):
        add('T0=0,T1=3/final=start/ee-sym', pw, t0sz=0, t1sz=3, final='start', ee_sym=True, mair=MAIR_INJECTIVE)
        add('T0=2,T1=0/final=start/nosec', pw, t0sz=2, t1sz=0, final='start', sec=False, mair=MAIR_INJECTIVE)
    # Hyp-mode stage 1 (Virtualization Extensions; HTTBR, HTCR.T0SZ, HSCTLR.EE, HMAIRn)
    for t0 in range(8):
        for pw in (0, 3):
            add('hyp/T0=%d/final=start' % t0, pw, t0sz=t0, final='start', hyp=True,
                mair=('sym' if t0 % 4 == 0 else MAIR_INJECTIVE), ee_sym=(t0 == 1))
    for j, t0 in enumerate((0, 2, 5)):
        for pw in (0, 3):
            add('hyp/T0=%d/final=2/%s-table' % (t0, foci[j]), pw, t0sz=t0, final=2, focus=foci[j], hyp=True,
                mair=MAIR_INJECTIVE)
            add('hyp/T0=%d/final=3/%s-table/attr%d' % (t0, foci[(j + 1) % 3], j + 2), pw, t0sz=t0, final=3,
                focus=foci[(j + 1) % 3], attrindx=j + 2, hyp=True, mair=MAIR_INJECTIVE)
    add('T0=1,T1=1/final=start/walk-attrs-sym', 0, t0sz=1, t1sz=1, final='start', rgn_sym=True, attrindx=3,
        mair=MAIR_INJECTIVE)
    return us


META = {
    'explanation': 'Bounded symbolic verification of the real ArmV6.translate_address_v / translation_table_walk_sd / '
                   'translation_table_walk_ld / check_domain / check_permission / data_abort / encode_sdfsr / '
                   'remapped_tex_decode / mair_decode / fcse_translate: the page tables ARE the symbolic memory array '
                   '(every descriptor word at every address arbitrary). Short-descriptor format: TTBR0/1, '
                   'TTBCR.{N,PD0,PD1}, DACR, SCTLR.{AFE,EE}, FCSE PID, PRRR/NMRR and the virtual address symbolic; '
                   'privilege and direction case-split; output address (40 bit), NS, memory type/attributes, or the '
                   'fault with DFSR.{FS,domain,WnR} and DFAR, compared with the B3 pseudocode oracle. '
                   'Long-descriptor format (ld_walk units, LPAE configuration, TTBCR.EAE = 1): TTBR0/TTBR1 (40 bit), '
                   'TTBCR.{EPD0,EPD1}, MAIR0/1, the virtual address and every 64-bit descriptor symbolic, T0SZ/T1SZ '
                   'enumerated; TTBR selection, start level, table / block / page descriptors at levels 1-3, '
                   'hierarchical APTable/NSTable/XNTable/PXNTable, access flag, AP[2:1], output address (40 bit), NS, '
                   'MAIR attribute decode and shareability are compared with the B3.19.6 TranslationTableWalkLD oracle; '
                   'a translation succeeds exactly when the oracle reports no fault.',
    'bounds': ['short-descriptor format, stage 1, SCTLR.TRE = 1, hardware access-flag update off',
               'quick: TTBCR.N = 0 (user reads, privileged writes), N = 2 (user writes; every descriptor type through TTBR0, sections / small pages / invalid first-level entries through TTBR1), SCTLR.EE = 0, one injective PRRR/NMRR setting, TTBR attribute bits [6:0] fixed; thorough: N in {0,1,2,7} with EE symbolic, PRRR/NMRR fully symbolic for N = 0, and a no-security-extension configuration',
               'long-descriptor format: stage 1 at PL1&0 and the Hyp-mode stage 1 (HTTBR/HTCR/HMAIRn; Hyp-mode AP/PXN/nG '
               'settings the architecture calls UNPREDICTABLE excluded), no stage 2, FCSE PID = 0; each unit pins '
               'T0SZ/T1SZ (quick: 8 pairs; thorough: all 64 pairs for walks ending at their first level, 8 pairs for '
               'deeper walks), the level of the final descriptor, and which of the table-descriptor control bits '
               '(APTable / NSTable / XNTable+PXNTable) are symbolic while the others are 0; MAIR symbolic in the '
               'first-level units with T0SZ+T1SZ a multiple of 4, else one injective setting with AttrIndx symbolic or pinned; '
               'MAIR encodings with an IMPLEMENTATION DEFINED / transient / UNPREDICTABLE meaning excluded'],
    'outside': ['SCTLR.TRE = 0 (remap_regs_have_reset_values is a NotImplementedError stub)', 'hardware access flag '
                'update (mem.set_bits stub)', 'long-descriptor FAULT REPORTS: every long-descriptor fault ends in the '
                'tlb_lookup_came_from_cache_maintenance NotImplementedError stub, so for faulting walks only "the '
                'architecture faults here, and nothing else changed" is claimed, not DFSR/DFAR', 'stage 2, '
                'short-descriptor faults under LPAE (same stub)', 'reserved TRn=11 / region 6',
                'physical memory above 4 GB (the hub model has no controller there: descriptor fetches read zero)'],
    'stubs': stubs.STUBS_DOC,
    'trusted_base': ['z3', 'symx engine', 'spec/vmsa.py transcription of DDI 0406C B3.19 / B3.6 / B4.1.104'],
    'assumptions': ['valid machine state; domain access 10 and AP encodings the architecture calls UNPREDICTABLE '
                    'excluded; TTBRn bits below the table alignment zero (UNPREDICTABLE otherwise)'],
}


def main(tier, seed):
    lem = runner.run_lemmas(('sec', 'nosec') if tier == 'thorough' else ('sec',))
    meta = dict(META)
    meta['checker_cmd'] = './check C15 %s' % tier
    return runner.main_run('C15', tier, units(tier, seed), meta, lemma_results=lem)
