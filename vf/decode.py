"""C06 / C07: decode -- every instruction word maps to the architectural instruction class.

The real decoder (decode_instruction and all sub-decoders) is executed on a fully symbolic word, shard by
shard; every decoder path yields an outcome (a class, None, UndefinedInstructionException, NotImplementedError).
Per path the solver must show that no word of the path belongs (by encoding diagram + SEE-guards, outside the
architecturally UNPREDICTABLE forms) to a table row of a DIFFERENT class; and the path condition may mention
only the word (ARM) resp. the word and the IT state (Thumb).  Operand extraction is covered by the functional
rows (post-state equality for all field values), whose 'decoder selects <class>' claim is the converse direction.
"""
import z3

from spec import pseudo as P
from spec import isa
from spec.isa import ISA
from symx import core
from vf import machine as MC
from vf import step
from vf.sweep import word_from_pins
from vf.unit import holds, from_code, _tb_tail


def z3_vars(t, acc=None, seen=None):
    acc = set() if acc is None else acc
    seen = set() if seen is None else seen
    stack = [t]
    while stack:
        x = stack.pop()
        i = x.get_id()
        if i in seen:
            continue
        seen.add(i)
        if z3.is_const(x) and x.decl().kind() == z3.Z3_OP_UNINTERPRETED:
            acc.add(x.decl().name())
        else:
            stack.extend(x.children())
    return acc


def mk_decode(iset, pins, arch=7, tables=None):
    thumb = iset != 'A'
    length = 16 if iset == 'T16' else 32

    def fn(env):
        step.load_tables(tables)
        cfg, ov = MC.std_cfg(arch=arch)
        m = MC.Machine(env, cfg, ov, thumb=thumb, it=('any' if thumb else 'none'))
        word = word_from_pins(env, length, [tuple(p) for p in pins])
        if iset == 'T32':
            env.assume(z3.Or(*[P.bits(word, 31, 27) == v for v in (0b11101, 0b11110, 0b11111)]))
        if iset == 'T16':
            env.assume(z3.And(*[P.bits(word, 15, 11) != v for v in (0b11101, 0b11110, 0b11111)]))
        arm = m.arm
        arm.opcode = env.wrap(word)
        arm.opcode_len = length
        outcome = None
        try:
            c = arm.decode_instruction(arm.opcode)
            outcome = c.__name__ if c is not None else 'None'
        except Exception as ex:
            if not from_code(ex):
                raise
            outcome = type(ex).__name__
            if outcome not in ('UndefinedInstructionException', 'NotImplementedError'):
                env.note('outcome', 'host:' + outcome)
                return [('decoder raises no host error', z3.BoolVal(False), '%s: %s @ %s' % (outcome, ex, _tb_tail(ex)))]
        env.note('outcome', outcome)
        cl = []
        # 1. no defined word of another row on this path
        bad = []
        for name, E in ISA.items():
            if E.iset != iset or name == outcome or E.family.endswith(('_aux', '_undef')):
                continue
            mt, f = E.match(word)
            if z3.is_false(z3.simplify(mt)):
                continue
            cond = z3.And(mt, E.g(f), z3.Not(E.unp(f, m.pre)), z3.Not(E.und(f, m.pre)))
            if outcome == 'NotImplementedError' and E.notimpl is not None:
                # the row itself expects an unimplemented-feature report: raising it already in the decoder is the
                # same documented outcome
                cond = z3.And(cond, z3.Not(isa._b(E.notimpl(f, m.pre))))
            bad.append((name, cond))
        for name, c in bad:
            cl.append(holds('no defined %s word decodes to %s' % (name, outcome), z3.Not(c)))
        if not bad:
            cl.append(holds('no table row of another class intersects this decoder path', True))
        # 2. state independence: the path condition mentions only the word (and the IT state in Thumb)
        allowed = set(n for n in env.vars if n.startswith('w_'))
        if thumb:
            allowed.add('cpsr_it')
        used = set()
        for a in core.CTX.pc():
            z3_vars(a, used)
        # assumptions of the machine builder (valid mode etc.) are part of the pc: ignore their variables only if
        # they occur in no decoder decision -- decisions are the frames after the builder's assumptions
        extra = used - allowed - {'cpsr_m'}
        cl.append(('decode depends on the instruction word%s only' % (' and the IT state' if thumb else ''),
                   z3.BoolVal(not extra), 'also depends on %s' % sorted(extra)))
        return cl
    return fn
