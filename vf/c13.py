"""C13: memory access model -- MemA/MemU get/set: endianness, alignment policy, exact byte footprint,
alignment faults with DFSR/DFAR, fetch endianness."""
import z3

from spec import pseudo as P
from spec.state import St
from symx import core, stubs
from symx.core import to_bv
from vf import machine as MC
from vf import runner
from vf.runner import UnitSpec
from vf.unit import eq, holds, from_code

SCTLR_AU = (1 << 1) | (1 << 22)


def mk_access(kind, size, arch, vmsa=False, write=False, unpriv=False):
    """kind: 'a' (MemA) or 'u' (MemU)"""
    def fn(env):
        from armulator.armv6.arm_exceptions import DataAbortException
        cfg, ov = MC.std_cfg(arch=arch, sec=True, virt=False, vmsa=vmsa)

        def build():
            m = MC.Machine(env, cfg, ov, thumb=False, e_sym=True, sym_sys={'sctlr': SCTLR_AU})
            return m

        addr = env.var('addr', 32)
        value = env.var('value', 8 * size)

        def run(m):
            arm = m.arm
            m.exc = None
            m.ret = None
            try:
                if kind == 'a':
                    if write:
                        arm.mem_a_set(addr, size, value)
                    else:
                        m.ret = arm.mem_a_get(addr, size)
                else:
                    if write:
                        (arm.mem_u_unpriv_set if unpriv else arm.mem_u_set)(addr, size, value)
                    else:
                        m.ret = (arm.mem_u_unpriv_get if unpriv else arm.mem_u_get)(addr, size)
            except DataAbortException as ex:
                m.exc = ex
        m = MC.stepper(env, build, run)
        S = m.pre.copy()
        A = to_bv(addr, 32)
        V = to_bv(value, 8 * size)
        fault = S.mem_a_fault(A, size) if kind == 'a' else S.mem_u_fault(A, size)
        un = A != S._align(A, size)
        if vmsa:
            # MMU off: memory is Strongly-ordered; an unaligned (byte-wise) access is UNPREDICTABLE without the
            # virtualization extensions -> outside the claim
            env.assume(z3.Or(z3.Not(un), fault, S._legacy_align()))
        cl = []
        if m.exc is not None:
            env.note('outcome', 'abort')
            cl.append(holds('alignment fault only when the architecture says so', fault))
            cl.append(holds('abort type is alignment', z3.BoolVal(m.exc.is_alignment_fault())))
            E = S.copy()
            if vmsa:
                E.vmsa_fault_status(A, write, 0b00001)
            else:
                E.pmsa_fault_status(A, write, 0b00001)
            cl += m.compare(E)
            return cl
        env.note('outcome', 'ok')
        cl.append(holds('no fault expected', z3.Not(fault)))
        E = S.copy()
        if write:
            if kind == 'a':
                E.mem_a_set(A, size, V)
            else:
                E.mem_u_set(A, size, V)
        else:
            want = E.mem_a_get(A, size) if kind == 'a' else E.mem_u_get(A, size)
            cl.append(eq('value read', m.ret, want, 8 * size))
        cl += m.compare(E)
        return cl
    return fn


def mk_roundtrip(size, arch):
    """store then load of the same size and address returns the stored value; no other byte changes"""
    def fn(env):
        from armulator.armv6.arm_exceptions import DataAbortException
        cfg, ov = MC.std_cfg(arch=arch)
        addr = env.var('addr', 32)
        value = env.var('value', 8 * size)

        def build():
            return MC.Machine(env, cfg, ov, thumb=False, e_sym=True, sym_sys={'sctlr': SCTLR_AU})

        def run(m):
            m.exc = None
            try:
                m.arm.mem_u_set(addr, size, value)
                m.ret = m.arm.mem_u_get(addr, size)
            except DataAbortException as ex:
                m.exc = ex
        m = MC.stepper(env, build, run)
        if m.exc is not None:
            return [holds('fault per policy', m.pre.mem_u_fault(to_bv(addr, 32), size))]
        cl = [eq('load returns the stored value', m.ret, to_bv(value, 8 * size), 8 * size)]
        # footprint: every byte outside [a, a+size) (after the legacy align-down) is unchanged
        A = to_bv(addr, 32)
        a0 = z3.If(m.pre._legacy_align(), m.pre._align(A, size), A)
        if env.symbolic:
            k = z3.BitVec('mem_k', 32)
            outside = z3.UGE(k - a0, size)
            cl.append(holds('bytes outside the footprint unchanged',
                            z3.Implies(outside, P.sel8(m.mem.array, k) == P.sel8(m.pre.mem, k))))
        return cl
    return fn


def mk_fetch(thumb, arch):
    """fetch_instruction is little-endian for both values of CPSR.E and decides 16/32-bit from hw1[15:11]"""
    def fn(env):
        cfg, ov = MC.std_cfg(arch=arch)

        def build():
            m = MC.Machine(env, cfg, ov, thumb=thumb, e_sym=True, it='any')
            return m

        def run(m):
            m.word = m.arm.fetch_instruction()
        m = MC.stepper(env, build, run)
        pc = m.pre.R['PC']
        b = [P.sel8(m.pre.mem, z3.simplify(pc + i)) for i in range(4)]
        cl = []
        if not thumb:
            cl.append(eq('ARM word little-endian', m.word, P.cat(b[3], b[2], b[1], b[0]), 32))
            cl.append(holds('opcode_len', z3.BoolVal(m.arm.opcode_len == 32)))
        else:
            hw1 = P.cat(b[1], b[0])
            hw2 = P.cat(b[3], b[2])
            is32 = z3.Or(P.bits(hw1, 15, 11) == 0b11101, P.bits(hw1, 15, 11) == 0b11110, P.bits(hw1, 15, 11) == 0b11111)
            L = m.arm.opcode_len
            cl.append(holds('32-bit iff hw1[15:11] in {11101,11110,11111}', is32 == z3.BoolVal(L == 32)))
            if L == 32:
                cl.append(eq('Thumb-32 halfwords little-endian', m.word, P.cat(hw1, hw2), 32))
            else:
                cl.append(eq('Thumb-16 halfword little-endian', m.word, hw1, 16))
                cl.append(holds('opcode_len 16', z3.BoolVal(L == 16)))
        cl += m.compare(m.pre)
        return cl
    return fn


def units(tier, seed=0):
    us = []
    archs = [6, 7] if tier == 'quick' else [5, 6, 7]
    for arch in archs:
        for size in (1, 2, 4, 8):
            for kind in ('a', 'u'):
                for write in (False, True):
                    us.append(UnitSpec('mem_%s_%s/%d/v%d' % (kind, 'set' if write else 'get', size, arch), 'vf.c13',
                                       'mk_access', dict(kind=kind, size=size, arch=arch, write=write)))
            for write in (False, True):
                us.append(UnitSpec('mem_u_unpriv_%s/%d/v%d' % ('set' if write else 'get', size, arch), 'vf.c13',
                                   'mk_access', dict(kind='u', size=size, arch=arch, write=write, unpriv=True)))
            us.append(UnitSpec('roundtrip/%d/v%d' % (size, arch), 'vf.c13', 'mk_roundtrip', dict(size=size, arch=arch)))
        for thumb in (False, True):
            us.append(UnitSpec('fetch/%s/v%d' % ('thumb' if thumb else 'arm', arch), 'vf.c13', 'mk_fetch',
                               dict(thumb=thumb, arch=arch)))
    if tier == 'thorough':
        for size in (1, 2, 4, 8):
            for kind in ('a', 'u'):
                for write in (False, True):
                    us.append(UnitSpec('vmsa/mem_%s_%s/%d/v7' % (kind, 'set' if write else 'get', size), 'vf.c13',
                                       'mk_access', dict(kind=kind, size=size, arch=7, write=write, vmsa=True)))
    return us


META = {
    'explanation': 'Bounded symbolic verification of the real accessors ArmV6.mem_a_get/set, mem_u_get/set, '
                   'mem_u_unpriv_get/set and fetch_instruction: address (all 2^32, every alignment), value, CPSR.E, '
                   'SCTLR.A, SCTLR.U, mode and the whole memory array symbolic; the returned value, the post-memory '
                   '(pointwise at a free address = extensional equality), alignment faults with DFSR/DFAR and the '
                   'frame are compared with the MemA/MemU pseudocode oracle; store-then-load round trip and '
                   'footprint stated directly; fetch shown little-endian for both values of E.',
    'bounds': ['sizes {1,2,4,8} and arch {5,6,7} enumerated (quick: 6,7)', 'MPU off (PMSA) / MMU off (VMSA, thorough)'],
    'outside': ['VMSA with MMU off and an unaligned byte-wise access (UNPREDICTABLE without virtualization extensions)',
                'Hyp-mode HSCTLR.A policy'],
    'stubs': stubs.STUBS_DOC,
    'trusted_base': ['z3', 'symx engine', 'spec/state.py MemA/MemU transcription (B2.4.4, B2.4.5)'],
    'assumptions': ['valid machine state'],
}


def main(tier, seed):
    lem = runner.run_lemmas(('sec',))
    meta = dict(META)
    meta['checker_cmd'] = './check C13 %s' % tier
    return runner.main_run('C13', tier, units(tier, seed), meta, lemma_results=lem)
