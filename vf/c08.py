"""C08: IT blocks -- the following instructions get the right conditions; the state advances and retires;
exceptions inside a block save/clear the IT state."""
import itertools

import z3

from spec import pseudo as P
from spec import isa
from spec.isa import ISA
from symx import core, stubs
from symx.core import to_bv
from vf import machine as MC
from vf import runner, step
from vf.runner import UnitSpec
from vf.unit import eq, holds, from_code, _tb_tail

TABLES = ['isa_dp', 'isa_br', 'isa_ls', 'isa_ls_wb', 'isa_sys']

# menu: name -> (row, word, length, kind)
MENU = {
    'adds16': ('AddRegisterThumbT1', 0x1888, 16, 'dp16'),   # ADD(S) r0, r1, r2
    'cmp16': ('CmpImmediateT1', 0x2905, 16, 'cmp'),         # CMP r1, #5
    'mov16': ('MovImmediateT1', 0x2307, 16, 'dp16'),        # MOV(S) r3, #7
    'addw32': ('AddImmediateThumbT3', 0xF1050410, 32, 'dp32'),  # ADD.W r4, r5, #16
    'nop16': ('NopT1', 0xBF00, 16, 'nop'),
    'msr32': ('MsrRegisterApplicationT1', 0xF3808800, 32, 'sys32'),  # MSR APSR_nzcvq, r0 (flags change mid-block)
    'ldr16': ('LdrImmediateThumbT1', 0x687E, 16, 'mem'),    # LDR r6, [r7, #4]
    'b16': ('BT2', 0xE002, 16, 'branch'),                    # B .+8   (only as last instruction of the block)
    'svc': ('SvcT1', 0xDF01, 16, 'exc'),
    'udf': ('UdfT1', 0xDE01, 16, 'exc'),
    # SVC whose handler (Thumb, at the SVC vector) immediately returns with SUBS PC, LR, #0: the block continues
    'svc+ret': ('SvcT1', 0xDF01, 16, 'excret'),
}
HANDLER_RETURN = ('SubsPcLrThumbT1', 0xF3DE8F00, 32)
BODY = ['adds16', 'cmp16', 'mov16', 'addw32', 'nop16', 'ldr16']
ENDERS = ['b16', 'svc', 'udf']


def fields_of(E, word):
    mt, f = E.match(z3.BitVecVal(word, E.length))
    assert z3.is_true(z3.simplify(mt)), (E.name, hex(word))
    return {k: z3.simplify(v) for k, v in f.items()}


def mk_itseq(shape, block_len, arch=7):
    """shape: instruction names executed after the IT instruction; block_len: number of slots of the IT block"""
    def fn(env):
        step.load_tables(TABLES)
        cfg, ov = MC.std_cfg(arch=arch)
        itE = ISA['ItT1']
        prog = [('it', itE, None, 16, 'seq')]
        for n in shape:
            prog.append((n, ISA[MENU[n][0]], MENU[n][1], MENU[n][2], 'seq'))
            if MENU[n][3] == 'excret':
                prog.append(('handler-return', ISA[HANDLER_RETURN[0]], HANDLER_RETURN[1], HANDLER_RETURN[2], 'vector'))
        trailing = shape and MENU[shape[-1]][3] not in ('branch', 'exc') and len(shape) == block_len
        if trailing:
            prog.append(('nop16', ISA['NopT1'], 0xBF00, 16, 'seq'))
        has_ret = any(MENU[n][3] == 'excret' for n in shape)

        def build():
            # exception handlers run in Thumb state at the normal vectors (SCTLR.TE = 1, V = 0), secure svc routing
            m = MC.Machine(env, cfg, ov, thumb=True, it='none', e_sym=False,
                           set_sys={'sctlr': 0x40C50078, 'scr': 0},
                           sym_sys=({'vbar': 0xFFFFFFE0} if has_ret else {}),
                           mode=(['usr', 'sys', 'irq', 'fiq', 'abt', 'und'] if has_ret else None))
            firstcond = env.bvvar('firstcond', 4)
            mask = env.bvvar('mask', 4)
            # the block has block_len slots: lowest set bit of mask at position 4 - block_len
            low = 4 - block_len
            env.assume(z3.And(P.bits(mask, low, low) == 1,
                              (P.bits(mask, low - 1, 0) == 0) if low > 0 else z3.BoolVal(True)))
            itword = z3.Concat(z3.BitVecVal(0xBF, 8), firstcond, mask)
            m.itf = {'firstcond': firstcond, 'mask': mask}
            # program bytes
            pc = m.pre.R['PC']
            arr = m.mem0
            off = 0
            m.words = []
            if has_ret:
                vec = m.pre.sys['vbar'] + 8
                # the handler does not overlap the program
                env.assume(z3.And(z3.UGE(vec - pc, 64), z3.UGE(pc - vec, 64)))
            voff = 0
            for name, E, word, length, where in prog:
                w = itword if name == 'it' else z3.BitVecVal(word, length)
                if length == 16:
                    bs = [P.bits(w, 7, 0), P.bits(w, 15, 8)]
                else:
                    bs = [P.bits(w, 23, 16), P.bits(w, 31, 24), P.bits(w, 7, 0), P.bits(w, 15, 8)]
                for b in bs:
                    if where == 'vector':
                        addr = z3.simplify(vec + voff)
                        voff += 1
                    else:
                        addr = z3.simplify(pc + off)
                        off += 1
                    arr = z3.Store(arr, addr, z3.simplify(b))
                    if not env.symbolic:
                        a = addr.as_long()
                        m.content0[a] = z3.simplify(b).as_long()
                        m.mem.content[a] = m.content0[a]
            m.mem0 = arr
            m.pre.mem = arr
            if env.symbolic:
                m.mem.array = arr
            # oracle chain
            S = m.pre
            chain = []
            unp_all = z3.BoolVal(False)
            for name, E, word, length, where in prog:
                f = m.itf if name == 'it' else fields_of(E, word)
                S1, unp, info = isa.step(S, E, f)
                unp_all = z3.Or(unp_all, unp)
                chain.append((name, S, S1, info))
                if name in MENU and MENU[name][3] == 'excret':
                    env.assume(info['passed'])  # the SVC slot executes (its handler then returns into the block)
                S = S1
            m.chain = chain
            env.assume(z3.Not(unp_all))
            return m

        def run(m):
            m.snaps = []
            m.escaped = None
            for i in range(len(prog)):
                try:
                    m.arm.emulate_cycle()
                except Exception as ex:
                    if not from_code(ex):
                        raise
                    m.escaped = (i, ex)
                    return
                m.snaps.append((m.snapshot(), m.mem.array if env.symbolic else None))

        m = MC.stepper(env, build, run)
        cl = []
        if m.escaped is not None:
            i, ex = m.escaped
            return [('no exception escapes step %d' % i, z3.BoolVal(False), '%s: %s @ %s' % (type(ex).__name__, ex,
                                                                                        _tb_tail(ex)))]
        # final state vs oracle chain (every component), and the IT-specific direct statements after every step
        final = m.chain[-1][2]
        cl += m.compare(final)
        for i, (snap, _) in enumerate(m.snaps):
            name, S0, S1, info = m.chain[i]
            c = to_bv(snap['cpsr'], 32)
            cl.append(eq('step %d (%s): CPSR' % (i, name), snap['cpsr'], S1.cpsr, 32))
            cl.append(eq('step %d (%s): PC' % (i, name), snap['R.PC'], S1.R['PC'], 32))
            it_now = P.cat(P.bits(c, 15, 10), P.bits(c, 26, 25))
            if name == 'it':
                cl.append(holds('IT sets ITSTATE = firstcond:mask', it_now == P.cat(m.itf['firstcond'], m.itf['mask'])))
            kind = MENU[name][3] if name in MENU else ('it' if name == 'it' else 'ret')
            if kind == 'ret':
                prev = m.chain[i - 1][1]
                adv = prev.copy()
                adv.it_advance()
                cl.append(holds('step %d: exception return restores the (advanced) ITSTATE saved in the SPSR' % i,
                                it_now == adv.it()))
            if kind == 'dp16' and 1 <= i <= block_len:
                cl.append(holds('step %d: 16-bit data-processing inside the block does not set flags' % i,
                                P.bits(c, 31, 28) == P.bits(S0.cpsr, 31, 28)))
            if kind in ('exc', 'excret'):
                took = info['exception']
                cl.append(holds('step %d: exception entry clears CPSR.IT' % i, z3.Implies(took, it_now == 0)))
            if i == block_len + (1 if has_ret else 0) and kind not in ('exc',) and not \
                    (has_ret and any(MENU[n][3] == 'excret' for n in shape[i - 1:])):
                cl.append(holds('ITSTATE empty after the last instruction of the block', it_now == 0))
        return cl
    return fn


def shapes(tier, seed=0):
    out = []
    if tier == 'quick':
        # 40 shapes: all single/two-instruction blocks over a reduced menu, plus longer representative ones
        for a in BODY + ENDERS:
            out.append(((a,), 1))
        for a in ['adds16', 'cmp16', 'addw32']:
            for b in ['mov16', 'cmp16', 'ldr16', 'b16', 'svc', 'udf']:
                out.append(((a, b), 2))
        out += [(('cmp16', 'adds16', 'mov16'), 3), (('adds16', 'addw32', 'nop16', 'mov16'), 4),
                (('cmp16', 'ldr16', 'adds16', 'b16'), 4), (('mov16', 'svc'), 4), (('adds16', 'udf'), 3),
                (('cmp16', 'cmp16', 'svc'), 4), (('addw32', 'addw32', 'addw32', 'addw32'), 4),
                (('svc',), 3), (('udf',), 4), (('ldr16', 'ldr16'), 2), (('mov16', 'adds16', 'cmp16', 'udf'), 4),
                (('nop16', 'b16'), 2), (('cmp16', 'adds16', 'svc'), 3),
                (('svc+ret', 'mov16'), 2), (('svc+ret', 'adds16', 'mov16', 'cmp16'), 4),
                (('cmp16', 'svc+ret', 'adds16'), 3), (('adds16', 'mov16', 'svc+ret', 'addw32'), 4),
                (('mov16', 'svc+ret', 'mov16', 'adds16'), 4),
                (('msr32',), 1), (('msr32', 'mov16'), 2), (('cmp16', 'msr32', 'adds16'), 3),
                (('adds16', 'msr32', 'mov16', 'cmp16'), 4), (('msr32', 'msr32', 'svc'), 4)]
        return out
    for L in (1, 2, 3, 4):
        for pos in range(L):
            for body in itertools.product(['adds16', 'cmp16', 'addw32'], repeat=L - 1):
                out.append((body[:pos] + ('msr32',) + body[pos:], L))
    for L in (2, 3, 4):
        for pos in range(L - 1):
            for body in itertools.product(['adds16', 'mov16', 'cmp16'], repeat=L - 1):
                out.append((body[:pos] + ('svc+ret',) + body[pos:], L))
    for L in (1, 2, 3, 4):
        for body in itertools.product(BODY, repeat=L):
            out.append((body, L))
        for k in range(0, L):
            for body in itertools.product(BODY, repeat=k):
                for e in ENDERS:
                    if e == 'b16':
                        if k + 1 == L:
                            out.append((body + (e,), L))
                    else:
                        out.append((body + (e,), L))
    return out


def units(tier, seed=0):
    us = [UnitSpec('it_advance+ItT1/row', 'vf.step', 'mk_step', dict(enc='ItT1', arch=7, tables=TABLES))]
    for shp, L in shapes(tier, seed):
        us.append(UnitSpec('itseq/L%d/%s' % (L, '+'.join(shp)), 'vf.c08', 'mk_itseq', dict(shape=list(shp), block_len=L),
                           max_seconds=1800, weight=len(shp)))
    return us


META = {
    'explanation': 'Bounded symbolic verification of the real code over multi-step programs: IT <firstcond,mask> followed '
                   'by 1-4 instructions from a menu (16-bit ADDS/MOVS/CMP/LDR/NOP, 32-bit ADD.W and MSR APSR, B as last, SVC, '
                   'UDF, SVC with a returning handler) '
                   'placed in a symbolic memory; firstcond, mask (every legal pair), NZCV, all register values and '
                   'memory are symbolic; the real emulate_cycle is called once per instruction and after EVERY step '
                   'CPSR (incl. ITSTATE) and PC are compared with the composed oracle steps, the whole final state '
                   'with the final oracle state, plus the direct statements: IT sets ITSTATE = firstcond:mask; 16-bit '
                   'data-processing inside the block leaves NZCV alone; ITSTATE is empty after the last slot; an '
                   'exception inside the block clears CPSR.IT (SPSR.IT per the oracle: advanced for SVC, not for '
                   'UDF). ITAdvance itself for all 256 ITSTATE values is the ItT1 / per-row IT advance of every Thumb '
                   'row (C01..C12) and the lemma in C05. Restoring SPSR.IT on return is the exception-return rows of '
                   'C12 (incl. the not-advanced-after-restore rule).',
    'bounds': ['programs: one IT block of <= 4 slots from the stated 11-instruction menu (quick: 50 shapes; thorough: all '
               '~2000 shapes); menu instructions stand for their classes', 'arch 7'],
    'outside': ['programs longer than one IT block; nested/UNPREDICTABLE IT usage'],
    'stubs': stubs.STUBS_DOC,
    'trusted_base': ['z3', 'symx engine', 'oracle rows of the menu instructions'],
    'assumptions': ['valid machine state, ITSTATE = 0 before the IT instruction'],
}


def main(tier, seed):
    lem = runner.run_lemmas(('sec',))
    meta = dict(META)
    meta['checker_cmd'] = './check C08 %s' % tier
    return runner.main_run('C08', tier, units(tier, seed), meta, lemma_results=lem)
