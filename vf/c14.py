"""C14: PMSA protection -- region match (highest-numbered enabled hit wins, subregions), AP table, background
rule, DFSR/DFAR on faults; instruction-level abort behaviour (no transfer, no write-back, abt entry)."""
import z3

from spec import pseudo as P
from spec import pmsa
from spec.state import St
from symx import core, stubs
from symx.core import to_bv
from vf import machine as MC
from vf import runner
from vf.runner import UnitSpec
from vf.unit import eq, holds


def region_sym(k, texcb_sym=False, rsize=None, regions=None):
    sym, st = {}, {}
    for r in (range(k) if regions is None else regions):
        sym['drsrs[%d]' % r] = 0xFF3F if rsize is None else 0xFF01  # SD bits, RSize, En
        if rsize is not None:
            st['drsrs[%d]' % r] = rsize[r] << 1
        sym['drbars[%d]' % r] = 0xFFFFFFFC
        sym['dracrs[%d]' % r] = 0x0700 | (0x103F if texcb_sym else 0)
        if not texcb_sym:
            st['dracrs[%d]' % r] = 0b000001  # TEX=000 C=0 B=1 (Device... attribute decode held at one value)
    return sym, st


def mk_translate(k, ispriv, iswrite, texcb_sym=False, arch=7, regions=None, mode=None):
    """regions = None: regions 0..k-1 symbolic, MPUIR.DRegion = k.  regions = [..]: MPUIR.DRegion = k, the named
    regions symbolic and every other region below k disabled (DRSR = 0) -- reaches the top of the region file
    (k = number_of_mpu_regions = 12) without 12 simultaneously symbolic regions.  mode: processor mode(s) the call
    is made in (default: svc for a privileged access, usr otherwise); a privileged mode with ispriv = False is the
    access of an unprivileged load/store (LDRT & co), which must be checked with User permissions"""
    def fn(env):
        from armulator.armv6.arm_exceptions import DataAbortException
        cfg, ov = MC.std_cfg(arch=arch)
        sym, st = region_sym(k, texcb_sym, regions=regions)
        if regions is not None:
            for r in range(k):
                if r not in regions:
                    st['drsrs[%d]' % r] = 0
                    st['drbars[%d]' % r] = 0
                    st['dracrs[%d]' % r] = 0
        sym['sctlr'] = (1 << 0) | (1 << 17)  # M, BR symbolic
        st['mpuir'] = k << 8
        m = MC.Machine(env, cfg, ov, thumb=False, mode=(mode or ('svc' if ispriv else 'usr')), sym_sys=sym,
                       set_sys=st)
        va = env.var('va', 32)
        VA = to_bv(va, 32)
        o = pmsa.translate_p(m.pre, VA, z3.BoolVal(ispriv), z3.BoolVal(iswrite), k)
        env.assume(z3.Not(o['unpred']))
        if texcb_sym:
            # reserved TEX/C/B encodings are UNPREDICTABLE in default_tex_decode: keep to the defined ones
            pass
        exc = None
        res = None
        try:
            res = m.arm.translate_address(va, ispriv, iswrite, 4, True)
        except DataAbortException as ex:
            exc = ex
        cl = []
        E = m.pre.copy()
        if exc is not None:
            env.note('outcome', 'abort')
            cl.append(holds('abort only when the protection rules deny the access', o['fault']))
            kind = exc.abort_type.name
            cl.append(holds('abort kind', z3.If(o['background'], z3.BoolVal(kind == 'BACKGROUND'),
                                                z3.BoolVal(kind == 'PERMISSION'))))
            E.pmsa_fault_status(VA, iswrite, o['fs'])
            cl += m.compare(E)
            return cl
        env.note('outcome', 'ok')
        cl.append(holds('access allowed only when the protection rules allow it', z3.Not(o['fault'])))
        cl.append(eq('flat physical address', res.paddress.physicaladdress, VA, 32))
        cl += m.compare(E)
        return cl
    return fn


INSTR_QUICK = ['StrImmediateThumbT1', 'LdrbImmediateArmA1', 'StrbImmediateArmA1']
INSTR_MORE = ['LdrImmediateThumbT1', 'LdrdImmediateA1', 'StrdImmediateA1', 'LdrhImmediateT1', 'StrhImmediateT1', 'LdrRegisterT1', 'LdrexA1',
              'StrexA1']


def instr_units(tier):
    """instruction level: loads/stores stepped through the real emulate_cycle with the MPU ON (one symbolic region,
    SCTLR.BR symbolic, every mode) against the one-step oracle with the B5 protection rules in its memory helpers: a
    denied access transfers nothing, writes nothing back and enters Abort mode at the vector with DFSR/DFAR set; an
    allowed one behaves exactly as with the MPU off"""
    from vf import famcheck, step
    T = list(step.FAMILIES)
    step.load_tables(T)
    from spec.isa import ISA
    rows = [r for r in INSTR_QUICK if r in ISA]
    fams = set(ISA[r].family for r in rows)
    us = famcheck.family_units(fams, [7], T, only=rows, tag='/mpu/32B', mpu=1, mpu_rsize=[4])
    if tier == 'thorough':
        more = [r for r in INSTR_MORE if r in ISA]
        fams = set(ISA[r].family for r in rows + more)
        us += famcheck.family_units(fams, [7], T, only=more, tag='/mpu/32B', mpu=1, mpu_rsize=[4])
        us += famcheck.family_units(fams, [7], T, only=rows, tag='/mpu/256B-subregions', mpu=1, mpu_rsize=[7])
        for puw in ((1, 1, 1), (0, 1, 0), (1, 0, 0)):
            for u in famcheck.family_units(fams | {ISA['LdrImmediateArmA1'].family}, [7], T,
                                           only=['LdrImmediateArmA1', 'StrImmediateArmA1'],
                                           tag='/mpu/32B/P%dU%dW%d' % puw, mpu=1, mpu_rsize=[4],
                                           fix={'P': puw[0], 'U': puw[1], 'W': puw[2]}):
                us.append(u)
    for u in us:
        u.max_seconds = 3000
        u.weight = 30
    return us


def units(tier, seed=0):
    us = []
    ks = [1, 2] if tier == 'quick' else [1, 2, 3]
    for k in ks:
        for ispriv in (False, True):
            for iswrite in (False, True):
                us.append(UnitSpec('translate_p/k%d/%s/%s' % (k, 'priv' if ispriv else 'user', 'w' if iswrite else 'r'),
                                   'vf.c14', 'mk_translate', dict(k=k, ispriv=ispriv, iswrite=iswrite),
                                   max_paths=400000, max_seconds=3000, weight=10 ** k))
    # unprivileged access made from privileged modes (LDRT/STRT & co): User permissions and no background region
    for k in ([1] if tier == 'quick' else [1, 2]):
        for iswrite in (False, True):
            us.append(UnitSpec('translate_p/k%d/unpriv-access-in-priv-mode/%s' % (k, 'w' if iswrite else 'r'), 'vf.c14',
                               'mk_translate', dict(k=k, ispriv=False, iswrite=iswrite,
                                                    mode=['svc', 'sys', 'fiq', 'irq', 'abt', 'und', 'mon']),
                               max_paths=400000, max_seconds=3000, weight=10 ** k))
    # the whole region file in use (DRegion = number_of_mpu_regions = 12): two symbolic regions at chosen indices,
    # the others disabled -- the top region (11) and the bottom one (0) take part in the priority rule
    sets = [[0, 11], [10, 11]] if tier == 'quick' else [[0, 11], [10, 11], [5, 11], [0, 1], [4, 9], [3, 7, 11]]
    for rs in sets:
        for ispriv in (False, True):
            for iswrite in (False, True):
                if tier == 'quick' and ispriv == iswrite:
                    continue
                us.append(UnitSpec('translate_p/full12/r%s/%s/%s' % ('-'.join(map(str, rs)), 'priv' if ispriv else 'user',
                                                                    'w' if iswrite else 'r'), 'vf.c14', 'mk_translate',
                                   dict(k=12, ispriv=ispriv, iswrite=iswrite, regions=rs),
                                   max_paths=400000, max_seconds=3000, weight=10 ** len(rs)))
    us += instr_units(tier)
    for ispriv in (False, True):
        for iswrite in (False, True):
            if tier == 'quick' and ispriv != iswrite:
                continue
            us.append(UnitSpec('translate_p/k1-texcb/%s/%s' % ('priv' if ispriv else 'user', 'w' if iswrite else 'r'),
                               'vf.c14', 'mk_translate', dict(k=1, ispriv=ispriv, iswrite=iswrite, texcb_sym=True),
                               max_seconds=1800, weight=20))
    return us


META = {
    'explanation': 'Bounded symbolic verification of the real ArmV6.translate_address_p / check_permission / '
                   'data_abort / encode_pmsafsr: DRSR (enable, size, 8 subregion-disable bits), DRBAR and DRACR.AP of '
                   'k regions, the address, SCTLR.{M,BR} symbolic; privilege and direction case-split (incl. an '
                   'unprivileged access made in every privileged mode, as LDRT/STRT do); outcome '
                   '(allowed / Background fault / Permission fault), DFSR.{FS,WnR}, DFAR and the frame compared with the '
                   'B5 pseudocode oracle (highest-numbered enabled hit region, subregion rule for sizes >= 256 bytes, '
                   'AP table, background rule). Instruction level: byte/halfword/word/doubleword loads and stores are '
                   'stepped through the real emulate_cycle with the MPU enabled and compared with the one-step oracle '
                   '(denied access: no transfer, no write-back, Data Abort entry with DFSR/DFAR).',
    'bounds': ['k <= 2 simultaneously symbolic regions (quick), k <= 3 (thorough); MPUIR.DRegion = k',
               'MPUIR.DRegion = 12 (the configured number of regions) with 2 (thorough: up to 3) symbolic regions at '
               'stated indices incl. region 0 and region 11, all other regions disabled',
               'TEX/C/B/S held at one value per region except the k=1 units where they are symbolic',
               'UNPREDICTABLE region programming (size < 4 bytes, misaligned base, AP=100/111) excluded',
               'instruction-level rows: one symbolic region of 32 bytes (thorough: also 256 bytes with subregions), '
               'instruction fetch assumed permitted, a store faulting after its first byte excluded (UNKNOWN memory)'],
    'outside': ['more than 3 simultaneously symbolic regions (priority is pairwise; not proved for 12)',
                'memory attributes (not part of C14)'],
    'stubs': stubs.STUBS_DOC,
    'trusted_base': ['z3', 'symx engine', 'spec/pmsa.py transcription of DDI 0406C B5'],
    'assumptions': ['valid machine state'],
}


def main(tier, seed):
    lem = runner.run_lemmas(('sec',))
    meta = dict(META)
    meta['checker_cmd'] = './check C14 %s' % tier
    return runner.main_run('C14', tier, units(tier, seed), meta, lemma_results=lem)
