"""C11: exception entry -- mode, SPSR, return address, masks, IT/J/T/E, vector, SCR.NS; frame."""
import z3

from spec import pseudo as P
from spec.state import St, MODE
from symx import core, stubs
from vf import machine as MC
from vf import runner
from vf.runner import UnitSpec
from vf.unit import eq, holds

CONFIGS = {
    'sec': dict(sec=True, virt=False), 'nosec': dict(sec=False, virt=False), 'virt': dict(sec=True, virt=True),
}

KINDS = ['undef', 'svc', 'smc', 'dabort_align', 'dabort_perm', 'irq', 'fiq', 'hyptrap', 'reset']


def sym_sys_for(cfg):
    s = {'sctlr': (1 << 13) | (1 << 24) | (1 << 30) | (1 << 25) | (1 << 27), 'vbar': 0xFFFFFFE0}
    if cfg['sec']:
        s['scr'] = 0x3FF
        s['mvbar'] = 0xFFFFFFE0
    if cfg['virt']:
        s['hcr'] = (1 << 27) | (1 << 5) | (1 << 4) | (1 << 3)
        s['hsctlr'] = (1 << 30) | (1 << 25)
        s['hvbar'] = 0xFFFFFFE0
    return s


def mk_entry(kind, cfgname, thumb, arch=7):
    def fn(env):
        from armulator.armv6.arm_exceptions import DataAbortException
        from armulator.armv6.enums import DAbort
        cfg, ov = MC.std_cfg(arch=arch, **CONFIGS[cfgname])
        m = MC.Machine(env, cfg, ov, thumb=thumb, it='any', e_sym=True, j_sym=True, sym_sys=sym_sys_for(cfg))
        arm = m.arm
        exp = m.pre.copy()
        if kind in ('hyptrap',) and not cfg['virt']:
            env.assume(False)
        if kind == 'smc' and not cfg['sec']:
            env.assume(False)
        if kind == 'undef':
            arm.registers.take_undef_instr_exception()
            exp.take_undef_instr_exception()
        elif kind == 'svc':
            arm.registers.take_svc_exception()
            exp.take_svc_exception()
        elif kind == 'smc':
            arm.registers.take_smc_exception()
            exp.take_smc_exception()
        elif kind == 'dabort_align':
            arm.registers.take_data_abort_exception(DataAbortException(DAbort.ALIGNMENT, False))
            exp.take_data_abort_exception(alignment_fault=z3.BoolVal(True))
        elif kind == 'dabort_perm':
            arm.registers.take_data_abort_exception(DataAbortException(DAbort.PERMISSION, False))
            exp.take_data_abort_exception(alignment_fault=z3.BoolVal(False))
        elif kind == 'irq':
            arm.registers.take_physical_irq_exception()
            exp.take_physical_irq_exception()
        elif kind == 'fiq':
            arm.registers.take_physical_fiq_exception()
            exp.take_physical_fiq_exception()
        elif kind == 'hyptrap':
            arm.registers.take_hyp_trap_exception()
            exp.take_hyp_trap_exception()
        elif kind == 'reset':
            arm.take_reset()
            exp = reset_oracle(m.pre, cfg)
        # entering Hyp mode from Secure state / with SCR.NS = 0 is not architecturally possible: the routing
        # predicates only send to Hyp when non-secure, so no extra assumption is needed
        cl = m.compare(exp)
        # architectural invariants stated directly (independent of the oracle's structure)
        snap = m.snapshot()
        cpsr = core.to_bv(snap['cpsr'], 32)
        cl.append(holds('IT cleared', z3.And(P.bits(cpsr, 15, 10) == 0, P.bits(cpsr, 26, 25) == 0)))
        cl.append(holds('J cleared', P.bits(cpsr, 24, 24) == 0))
        cl.append(holds('I set', z3.Or(P.bits(cpsr, 7, 7) == 1, z3.BoolVal(kind == 'hyptrap'),
                                       exp.is_mode('hyp'))))
        return cl
    return fn


def reset_oracle(pre, cfg):
    """TakeReset (B1.9.1)"""
    S = pre.copy()
    S.set_mode(MODE['svc'])
    if cfg['sec']:
        S.sys['scr'] = P.cat(P.bits(S.sys['scr'], 31, 1), P.BV(0, 1))
    # ResetControlRegisters(): the repository re-creates VBAR from its reset value
    S.sys['vbar'] = P.BV(0, 32)
    S.set_cbit(7, True)
    S.set_cbit(6, True)
    S.set_cbit(8, True)
    S.set_it(0)
    S.set_cbit(24, False)
    S.set_cbit(5, S.sctlr(30))
    S.set_cbit(9, S.sctlr(25))
    vec = S.exc_vector_base()
    S.R['PC'] = P.cat(P.bits(vec, 31, 1), P.BV(0, 1))
    return S


def units(tier, seed=0):
    us = []
    cfgs = ['sec', 'virt'] if tier == 'quick' else ['sec', 'nosec', 'virt']
    archs = [7] if tier == 'quick' else [6, 7]
    for cn in cfgs:
        for kind in KINDS:
            if kind == 'hyptrap' and cn != 'virt':
                continue
            if kind == 'smc' and cn == 'nosec':
                continue
            for thumb in (False, True):
                for arch in archs:
                    if cn == 'virt' and arch != 7:
                        continue
                    us.append(UnitSpec('entry/%s/%s/%s/v%d' % (kind, cn, 'thumb' if thumb else 'arm', arch), 'vf.c11',
                                       'mk_entry', dict(kind=kind, cfgname=cn, thumb=thumb, arch=arch)))
    # dispatch: the same entries reached through the real emulate_cycle by exception-generating instructions (SVC, SMC,
    # UDF, BKPT, alignment-faulting LDREX/LDRD) -- in Thumb state with an arbitrary ITSTATE, so the SPSR must hold the
    # CPSR of the instruction boundary (IT bits of the faulting instruction; advanced for SVC/SMC)
    from vf import famcheck, step
    T = list(step.FAMILIES)
    step.load_tables(T)
    from spec.isa import ISA
    rows = ['SvcA1', 'SvcT1', 'SmcA1', 'SmcT1', 'UdfA1', 'UdfT1', 'UdfT2', 'BkptA1', 'BkptT1', 'LdrexT1', 'LdrexA1',
            'LdrdImmediateT1', 'LdrexdT1']
    rows = [r for r in rows if r in ISA]
    us += famcheck.family_units(set(ISA[r].family for r in rows), archs, T, only=rows, tag='/dispatch')
    return us


META = {
    'explanation': 'Bounded symbolic verification of the real exception-entry code: Registers.take_*_exception and '
                   'ArmV6.take_reset are executed from an arbitrary valid machine state (whole CPSR incl. mode, IT, '
                   'A/I/F, E, and J in Thumb state (ThumbEE); all banked registers; PC; SCTLR.{V,VE,TE,EE,NMFI}; all SCR bits; HCR.{TGE,AMO,IMO,FMO}; '
                   'HSCTLR.{TE,EE}; VBAR/MVBAR/HVBAR symbolic) and every component of the post-state is compared '
                   'with the B1.9 pseudocode oracle (mode, SPSR, LR/ELR_hyp, masks, IT/J/T/E, SCR.NS, PC = vector) '
                   'including the frame (nothing else changes). Dispatch through the real emulate_cycle is checked with '
                   'the exception-generating instruction rows (SVC, SMC, UDF, BKPT, alignment-faulting LDREX/LDRD; '
                   'ARM and Thumb with arbitrary ITSTATE) against the one-step oracle.',
    'bounds': ['configurations enumerated: security ext present/absent, virtualization ext present (ARMv7), arch 6/7',
               'T enumerated (ARM/Thumb); everything else symbolic'],
    'outside': ['prefetch abort, virtual interrupts, external/asynchronous aborts (is_external_abort/is_async_abort '
                'are constant-False stubs in the repository)'],
    'stubs': stubs.STUBS_DOC,
    'trusted_base': ['z3', 'symx engine', 'spec/state.py transcription of DDI 0406C B1.9'],
    'assumptions': ['valid machine state; vector base registers 32-byte aligned'],
}


def main(tier, seed):
    lem = runner.run_lemmas(('sec', 'nosec', 'virt') if tier == 'thorough' else ('sec', 'virt'))
    meta = dict(META)
    meta['checker_cmd'] = './check C11 %s' % tier
    return runner.main_run('C11', tier, units(tier, seed), meta, lemma_results=lem)
