"""C16: memory hub -- an access touches exactly the mapped device bytes, never resizes/escapes/crashes.

The real MemoryControllerHub / MemoryController / RAM code runs with models of `struct` and `bytearray`
(the C boundary): contents are symbolic bytes, device beginnings and the access address are symbolic; slice
indices reaching the byte-array model are concretised by solver enumeration (devices are small)."""
import struct as real_struct

import z3

from spec import pseudo as P
from symx import core, stubs
from symx.core import SymInt, to_bv, in_range, U
from vf import runner
from vf.runner import UnitSpec
from vf.unit import eq, holds, from_code

FMT_SIZE = {'B': 1, '<H': 2, '<I': 4, '<Q': 8}


class SymByteArray(list):
    """bytearray model: list of byte values (ints / SymInts) with Python's slice get / slice assign semantics"""

    def __init__(self, x=0):
        if isinstance(x, int):
            super().__init__([0] * x)
        else:
            super().__init__(list(x))

    def __getitem__(self, k):
        if isinstance(k, slice):
            k = slice(_idx(k.start), _idx(k.stop), k.step)
            return SymByteArray(list.__getitem__(self, k))
        return list.__getitem__(self, _idx(k))

    def __add__(self, other):
        return SymByteArray(list(self) + list(other))

    def __setitem__(self, k, v):
        if isinstance(k, slice):
            k = slice(_idx(k.start), _idx(k.stop), k.step)
            return list.__setitem__(self, k, list(v))
        return list.__setitem__(self, _idx(k), v)


def _idx(i):
    if i is None or type(i) is int:
        return i
    return i.__index__()  # solver enumeration


class StructModel:
    error = real_struct.error

    @staticmethod
    def pack(fmt, v):
        n = FMT_SIZE[fmt]
        ok = z3.simplify(in_range(v, 8 * n))
        if not z3.is_true(ok):
            if z3.is_false(ok) or not core.CTX.branch(ok):
                raise core.modelled(real_struct.error('argument out of range'))
        b = to_bv(v, 8 * n)
        return SymByteArray([U(z3.Extract(8 * i + 7, 8 * i, b), 8) for i in range(n)])

    @staticmethod
    def unpack(fmt, data):
        n = FMT_SIZE[fmt]
        if len(data) != n:
            raise core.modelled(real_struct.error('unpack requires a buffer of %d bytes' % n))
        bs = [to_bv(x, 8) for x in data]
        e = bs[0] if n == 1 else z3.Concat(*reversed(bs))
        return (U(e, 8 * n),)


def install_models():
    from armulator.armv6 import memory_controller_hub, memory_types
    memory_controller_hub.__dict__['struct'] = StructModel
    memory_types.__dict__['bytearray'] = SymByteArray


def uninstall_models():
    from armulator.armv6 import memory_controller_hub, memory_types
    memory_controller_hub.__dict__['struct'] = real_struct
    memory_types.__dict__.pop('bytearray', None)


class Desc:
    def __init__(self, pa):
        class PA:
            pass
        self.paddress = PA()
        self.paddress.physicaladdress = pa
        self.paddress.ns = 0


def access_claims(hub, sizes, begs, conts, A, V, acc, write, ret, tag=''):
    """claims for ONE access (address A: 34-bit term, value V) on a hub whose devices held `conts` before it"""
    cl = []
    # oracle: first matching controller
    hit = [z3.And(z3.ULE(begs[d], A), z3.ULT(A, begs[d] + sizes[d])) for d in range(len(sizes))]
    first = []
    none_before = z3.BoolVal(True)
    for d in range(len(sizes)):
        first.append(z3.And(none_before, hit[d]))
        none_before = z3.And(none_before, z3.Not(hit[d]))
    nohit = none_before
    # device sizes never change
    for d, mc in enumerate(hub.memories):
        cl.append(holds(tag + 'len(device %d) unchanged' % d, z3.BoolVal(len(mc.mem.memory_array) == sizes[d])))

    def dev_byte(d, off34):
        """content byte of device d at symbolic offset (34-bit term)"""
        r = z3.BitVecVal(0, 8)
        for i in range(sizes[d] - 1, -1, -1):
            r = z3.If(off34 == i, conts[d][i], r)
        return r
    if not write:
        for d in range(len(sizes)):
            off = A - begs[d]
            inside = z3.ULE(off + acc, z3.BitVecVal(sizes[d], 34))
            want = [dev_byte(d, off + i) for i in range(acc)]
            w = want[0] if acc == 1 else z3.Concat(*reversed(want))
            cl.append(holds(tag + 'read inside device %d = little-endian bytes [addr-begin, +size)' % d,
                            z3.Implies(z3.And(first[d], inside), z3.And(in_range(ret, 8 * acc),
                                                                        to_bv(ret, 8 * acc) == w))))
        cl.append(holds(tag + 'unmapped address reads as zero', z3.Implies(nohit, to_bv(ret, 8 * acc + 1) == 0)))
        for d, mc in enumerate(hub.memories):
            arr = mc.mem.memory_array
            for i in range(min(len(arr), sizes[d])):
                cl.append(eq(tag + 'read leaves device %d byte %d' % (d, i), arr[i], conts[d][i], 8))
    else:
        for d, mc in enumerate(hub.memories):
            arr = mc.mem.memory_array
            off = A - begs[d]
            inside = z3.ULE(off + acc, z3.BitVecVal(sizes[d], 34))
            for i in range(min(len(arr), sizes[d])):
                got = to_bv(arr[i], 8)
                rng = in_range(arr[i], 8)
                k = z3.BitVecVal(i, 34) - off  # index into the written value if 0 <= k < acc
                inwin = z3.And(first[d], z3.ULT(k, acc))
                vb = z3.BitVecVal(0, 8)
                for j in range(acc):
                    vb = z3.If(k == j, z3.Extract(8 * j + 7, 8 * j, V), vb)
                # bytes outside the access window (or of a device that is not the first match) are untouched
                cl.append(holds(tag + 'write: device %d byte %d untouched outside the window' % (d, i),
                                z3.Implies(z3.Not(inwin), z3.And(rng, got == conts[d][i]))))
                # an access lying wholly inside the device writes exactly the value bytes
                cl.append(holds(tag + 'write: device %d byte %d = value byte inside the window' % (d, i),
                                z3.Implies(z3.And(inwin, inside), z3.And(rng, got == vb))))
                # a straddling access may only leave old or new data in its in-device part
                cl.append(holds(tag + 'write: device %d byte %d old-or-new when straddling' % (d, i),
                                z3.Implies(z3.And(inwin, z3.Not(inside)),
                                           z3.And(rng, z3.Or(got == vb, got == conts[d][i])))))
    return cl


def mk_hub(sizes, acc, write):
    """sizes: tuple of device sizes (1..3 devices); acc: access size"""
    def fn(env):
        from armulator.armv6.memory_controller_hub import MemoryControllerHub, MemoryController
        from armulator.armv6.memory_types import RAM
        if env.symbolic:
            install_models()
        else:
            uninstall_models()
        hub = MemoryControllerHub()
        begs, conts = [], []
        for d, sz in enumerate(sizes):
            b = env.var('beg%d' % d, 32)
            env.assume(core.tobool(b + sz <= (1 << 32)))
            ram = RAM(sz)
            cont = [env.var('d%d_b%d' % (d, i), 8) for i in range(sz)]
            if env.symbolic:
                ram.memory_array = SymByteArray(cont)
            else:
                for i, v in enumerate(cont):
                    ram.memory_array[i] = v
            hub.memories.append(MemoryController(ram, b, b + sz))
            begs.append(to_bv(b, 34))
            conts.append([to_bv(c, 8) for c in cont])
        addr = env.var('addr', 32)
        value = env.var('value', 8 * acc)
        A = to_bv(addr, 34)
        V = to_bv(value, 8 * acc)
        ret = None
        exc = None
        try:
            if write:
                hub[Desc(addr), acc] = value
            else:
                ret = hub[Desc(addr), acc]
        except Exception as ex:
            if not from_code(ex):
                raise
            exc = ex
        if exc is not None:
            from vf.unit import _tb_tail
            return [('no host-level error', z3.BoolVal(False), '%s: %s @ %s' % (type(exc).__name__, exc, _tb_tail(exc)))]
        cl = access_claims(hub, sizes, begs, conts, A, V, acc, write, ret)
        return cl
    return fn


def mk_hub2(sizes, acc1, write1, acc2, write2, mutate='none'):
    """two accesses in a row (each at its own symbolic address) -- the second must behave as a function of the
    hub's controller list and device bytes as they are after the first (no dependence on the access history);
    mutate: what happens to hub.memories between the two accesses ('none', 'pop0': the first controller is
    unregistered, 'reverse': the controllers are re-registered in the opposite order)"""
    def fn(env):
        from armulator.armv6.memory_controller_hub import MemoryControllerHub, MemoryController
        from armulator.armv6.memory_types import RAM
        from vf.unit import _tb_tail
        if env.symbolic:
            install_models()
        else:
            uninstall_models()
        hub = MemoryControllerHub()
        begs, conts = [], []
        for d, sz in enumerate(sizes):
            b = env.var('beg%d' % d, 32)
            env.assume(core.tobool(b + sz <= (1 << 32)))
            ram = RAM(sz)
            cont = [env.var('d%d_b%d' % (d, i), 8) for i in range(sz)]
            if env.symbolic:
                ram.memory_array = SymByteArray(cont)
            else:
                for i, v in enumerate(cont):
                    ram.memory_array[i] = v
            hub.memories.append(MemoryController(ram, b, b + sz))
            begs.append(to_bv(b, 34))
            conts.append([to_bv(c, 8) for c in cont])
        sizes_ = list(sizes)
        cl = []
        for step, (acc, write) in enumerate(((acc1, write1), (acc2, write2))):
            addr = env.var('addr%d' % step, 32)
            value = env.var('value%d' % step, 8 * acc)
            A = to_bv(addr, 34)
            V = to_bv(value, 8 * acc)
            if step == 0 and write:
                # a first write that straddles the end of a device leaves old-or-new data (claimed by the one-access
                # units); here the first access lies wholly inside its device or is unmapped
                for d in range(len(sizes_)):
                    env.assume(z3.Or(z3.Not(z3.And(z3.ULE(begs[d], A), z3.ULT(A, begs[d] + sizes_[d]))),
                                     z3.ULE(A - begs[d] + acc, z3.BitVecVal(sizes_[d], 34))))
            ret = None
            try:
                if write:
                    hub[Desc(addr), acc] = value
                else:
                    ret = hub[Desc(addr), acc]
            except Exception as ex:
                if not from_code(ex):
                    raise
                return [('no host-level error', z3.BoolVal(False),
                         '%s: %s @ %s' % (type(ex).__name__, ex, _tb_tail(ex)))]
            cl += access_claims(hub, sizes_, begs, conts, A, V, acc, write, ret, tag='access %d: ' % (step + 1))
            if step == 0:
                # the devices as the first access left them are the second access's pre-state
                for d, mc in enumerate(hub.memories):
                    arr = mc.mem.memory_array
                    if len(arr) != sizes_[d]:
                        return cl
                    conts[d] = [to_bv(arr[i], 8) for i in range(sizes_[d])]
                if mutate == 'pop0':
                    hub.memories.pop(0)
                    begs, conts, sizes_ = begs[1:], conts[1:], sizes_[1:]
                elif mutate == 'reverse':
                    hub.memories.reverse()
                    begs, conts, sizes_ = begs[::-1], conts[::-1], sizes_[::-1]
        return cl
    return fn


def units(tier, seed=0):
    us = []
    if tier == 'quick':
        layouts = [(4,), (5,), (8,), (1, 4), (5, 8)]
    else:
        layouts = [(1,), (2,), (3,), (4,), (5,), (7,), (8,), (9,), (16,), (1, 4), (5, 8), (3, 9), (8, 8), (4, 5, 8),
                   (2, 7, 16)]
    for lay in layouts:
        for acc in (1, 2, 4, 8):
            for write in (False, True):
                us.append(UnitSpec('hub/%s/%d/%s' % ('+'.join(map(str, lay)), acc, 'w' if write else 'r'), 'vf.c16',
                                   'mk_hub', dict(sizes=list(lay), acc=acc, write=write), summaries=False,
                                   weight=len(lay) * sum(lay)))
    # two accesses in a row: the second must not depend on the first (hidden per-hub state such as a last-hit cache)
    if tier == 'quick':
        lay2 = [(3,), (2, 3)]
        accs = [(1, 4), (4, 1)]
    else:
        lay2 = [(3,), (2, 3), (4, 5), (1, 2, 3)]
        accs = [(1, 1), (1, 4), (4, 1), (2, 8), (8, 2), (4, 4)]
    for lay in lay2:
        for a1, a2 in accs:
            for w1 in (False, True):
                for w2 in (False, True):
                    for mut in ('none', 'pop0', 'reverse'):
                        if mut == 'reverse' and len(lay) < 2:
                            continue
                        us.append(UnitSpec('hub2/%s/%d%s-%s-%d%s' % ('+'.join(map(str, lay)), a1, 'w' if w1 else 'r', mut,
                                                                      a2, 'w' if w2 else 'r'), 'vf.c16', 'mk_hub2',
                                           dict(sizes=list(lay), acc1=a1, write1=w1, acc2=a2, write2=w2, mutate=mut),
                                           summaries=False, weight=3 * len(lay) * sum(lay)))
    return us


META = {
    'explanation': 'Bounded symbolic verification of the real MemoryControllerHub.__getitem__/__setitem__/'
                   'get_memory_by_address, MemoryType.__getitem__/__setitem__ and RAM.read/write with models of '
                   'struct.pack/unpack and bytearray slicing: device contents, device beginnings (so adjacent, '
                   'gapped and overlapping layouts are all instances), the access address and the value are '
                   'symbolic; one operation from an ARBITRARY hub state, asserting the result, the exact write '
                   'footprint, first-match priority, unmapped-reads-zero, no host exception and len(device) '
                   'unchanged -- the last is the invariant that makes the single step cover every history. Two-access '
                   'units (hub2/...) run two accesses at independent symbolic addresses, optionally un-registering or '
                   're-ordering controllers in between, and hold the second access to the same claims over the state the '
                   'first one left: the result may depend on the controller list and the device bytes only, not on the '
                   'access history.',
    'bounds': ['1..3 controllers with device sizes from {1,2,3,4,5,7,8,9,16} (quick: 5 layouts; thorough: 15)',
               'access sizes {1,2,4,8}', 'two-access units: layouts of 1..3 small devices, 2..6 size pairs, the first '
               'write not straddling a device end', 'slice offsets reaching the byte-array model are enumerated by the solver '
               '(<= device size values per path)'],
    'outside': ['device sizes and controller counts beyond the enumerated layouts', 'controllers whose end differs '
                'from beginning + device size'],
    'stubs': ['struct.pack/unpack -> little-endian split/concat of symbolic bytes, struct.error on range/length '
              'mismatch', 'bytearray -> list model with Python slice semantics (clipping, resize on length mismatch)'],
    'trusted_base': ['z3', 'symx engine', 'the struct/bytearray models'],
    'assumptions': ['controller end = beginning + len(device), beginning + size <= 2^32'],
}
