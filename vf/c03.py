"""C03: block transfers and stack operations move the right registers to the right words."""
import z3

from spec import pseudo as P
from symx import core, stubs
from symx.core import to_bv
from vf import machine as MC
from vf import runner, step
from vf.runner import UnitSpec
from vf.unit import eq, holds, from_code

TABLES = ['isa_blk']
QUICK_LABELS = {'LO', 'HI', 'ALL', 'SYM', 'SYMRN', 'LO8P', 'ALLP'}
QUICK_FIRST = {'ALL8': 'SYMRN', 'ALL9': None, 'LO8': None}  # (8/9-bit fully symbolic lists: thorough tier)


def mk_push_pop(iset, sym_mask, pattern, arch=7):
    """PUSH {list} ; POP {list} restores every listed register and the stack pointer (two real emulate_cycle
    steps; list windowed: bits in sym_mask symbolic, others from pattern; values, SP, memory symbolic)"""
    thumb = iset != 'A'

    def fn(env):
        cfg, ov = MC.std_cfg(arch=arch)

        def build():
            m = MC.Machine(env, cfg, ov, thumb=thumb, it='none')
            nbits = 16 if not thumb else 8
            bits_ = []
            for i in range(nbits - 1, -1, -1):
                if (sym_mask >> i) & 1:
                    bits_.append(env.bvvar('list%d' % i, 1))
                else:
                    bits_.append(z3.BitVecVal((pattern >> i) & 1, 1))
            lst = z3.simplify(z3.Concat(*bits_))
            m.lst = lst
            if not thumb:
                push = z3.Concat(z3.BitVecVal(0xE92D, 16), lst)   # PUSH A1 (STMDB sp!, {..})
                pop = z3.Concat(z3.BitVecVal(0xE8BD, 16), lst)    # POP A1 (LDMIA sp!, {..})
                # A1 PUSH/POP need at least two registers (single register forms are other encodings), no SP/PC
                env.assume(z3.And(P.bits(lst, 13, 13) == 0, P.bits(lst, 15, 15) == 0))
                cnt = P.bit_count(lst)
                env.assume(z3.UGE(cnt, 2))
                length = 32
            else:
                push = z3.Concat(z3.BitVecVal(0b1011010, 7), z3.BitVecVal(0, 1), lst)   # PUSH T1 {r0-r7}
                pop = z3.Concat(z3.BitVecVal(0b1011110, 7), z3.BitVecVal(0, 1), lst)    # POP T1 {r0-r7}
                env.assume(lst != 0)
                length = 16
            m.place_instruction(push, length)
            m.place_instruction(pop, length, at=z3.simplify(m.pre.R['PC'] + length // 8))
            # the stack does not overlap the two instructions
            sp = m.pre.sp()
            pc = m.pre.R['PC']
            env.assume(z3.And(z3.UGE(sp - 80 - pc, 16), z3.UGE(pc - (sp - 80), 96)))
            env.assume(P.bits(sp, 1, 0) == 0)
            return m

        def run(m):
            m.arm.emulate_cycle()
            m.arm.emulate_cycle()
        m = MC.stepper(env, build, run)
        snap = m.snapshot()
        cl = []
        for name in MC.RNAMES:
            if name == 'PC':
                cl.append(eq('PC advanced over both instructions', snap['R.PC'], m.pre.R['PC'] + 2 * (2 if thumb else 4), 32))
            else:
                cl.append(eq('register %s restored / untouched' % name, snap['R.' + name], m.pre.R[name], 32))
        cl.append(eq('CPSR unchanged', snap['cpsr'], m.pre.cpsr, 32))
        return cl
    return fn


SPLIT_BITS = {'LO8P': ('r0', 'r1'), 'LO8': ('r0', 'r1'), 'ALL8': ('r0', 'r1'), 'ALL9': ('r0', 'r1'), 'HI8': ('r8', 'r9'),
              'LO': ('r0',), 'HI': ('r12',)}


def split_window(label, opts):
    """case split of a wide window on one or two of its list bits (the cases together are the whole window and run
    in parallel)"""
    bits_ = [b for b in SPLIT_BITS.get(label, ()) if b not in (opts.get('fix') or {})]
    from spec.isa import ISA
    have = {n for k, n, w, v in ISA[opts['enc']].items if k == 'f'}
    bits_ = [b for b in bits_ if b in have]
    cases = [('', opts)]
    for b in bits_:
        cases = [('%s/%s=%d' % (suf, b, v), dict(o, fix=dict(o.get('fix') or {}, **{b: v}))) for suf, o in cases
                 for v in (0, 1)]
    return cases


def units(tier, seed=0):
    from spec import isa_blk
    step.load_tables(TABLES)
    us = []
    archs = [7] if tier == 'quick' else [6, 7]
    variants = ['std'] if tier == 'quick' else ['std', 'align', 'be']
    for name in sorted(isa_blk.KIND):
        for arch in archs:
            for var in variants:
                if var != 'std' and arch != 6:
                    continue
                for uname, opts in isa_blk.units(name, arch, var):
                    label = uname.rsplit('/', 1)[1]
                    if tier == 'quick' and label not in QUICK_LABELS:
                        continue
                    for suf, o2 in split_window(label, opts):
                        us.append(UnitSpec(uname + suf, 'vf.step', 'mk_step', o2, max_seconds=2400, weight=3,
                                           allow_vacuous=bool(suf)))
    pp = (('A', 0x000F, 0x0000), ('A', 0x5000, 0x0003), ('T16', 0x0F, 0x20)) if tier == 'quick' else \
        (('A', 0x003F, 0x0000), ('A', 0x5F00, 0x0001), ('T16', 0x3F, 0x80), ('T16', 0xC3, 0x04))
    for iset, sym, pat in pp:
        us.append(UnitSpec('push_pop/%s/%04x' % (iset, sym), 'vf.c03', 'mk_push_pop',
                           dict(iset=iset, sym_mask=sym, pattern=pat), max_seconds=2400, weight=5))
    return us


META = {
    'explanation': 'Bounded symbolic verification of the real code: every block-transfer / stack row (LDM/STM in four '
                   'addressing modes, PUSH/POP, user-bank and exception-return LDM/STM, SRS, RFE; ARM and Thumb) is '
                   'stepped through the real emulate_cycle with the base value (any address incl. wrap-around), W, the '
                   'mode/bank, register values and the memory array symbolic and the register list symbolic on a window '
                   'of list bits (the loop over the list forks once per symbolic bit); transferred (address, register) '
                   'pairs, final base / banked SP, PC loads, CPSR restore and the frame equal the A8.8/B9.3 pseudocode. '
                   'PUSH;POP of the same list through two real steps restores every register and SP (direct claim).',
    'bounds': ['register lists: windows of <= 8 symbolic list bits with the other bits from stated patterns '
               '(spec/isa_blk.py PLAN: every list bit is symbolic in some window; PC/LR/SP/base-in-list covered); '
               'quick runs a subset of the windows on arch 7, thorough all windows on arch 6,7 + alignment-policy and '
               'big-endian variants', 'lists with more than the windowed bits symbolic at once are outside'],
    'outside': ['base register in the list with write-back (UNKNOWN/UNPREDICTABLE)', 'UNPREDICTABLE forms'],
    'stubs': stubs.STUBS_DOC,
    'trusted_base': ['z3', 'symx engine', 'oracle rows spec/isa_blk.py'],
    'assumptions': ['valid machine state'],
}


def main(tier, seed):
    lem = runner.run_lemmas(('sec',))
    meta = dict(META)
    meta['checker_cmd'] = './check C03 %s' % tier
    return runner.main_run('C03', tier, units(tier, seed), meta, lemma_results=lem)
