"""C07: Thumb decode -- every 16/32-bit encoding maps to the right instruction class."""
from symx import stubs
from vf import runner, step, famcheck, sweep
from vf.runner import UnitSpec

PID = 'C07'


def units(tier, seed=0):
    T = list(step.FAMILIES)
    us = []
    for name, pins in sweep.t16_shards():
        us.append(UnitSpec('decode/' + name, 'vf.decode', 'mk_decode',
                           dict(iset='T16', pins=[list(p) for p in pins], tables=T), max_seconds=1800))
    for v in range(128, 512):
        pins = [(31, 29, 0b111), (28, 20, v)]
        us.append(UnitSpec('decode/T32/%03x' % v, 'vf.decode', 'mk_decode',
                           dict(iset='T32', pins=[list(p) for p in pins], tables=T), max_seconds=1800))
    # fetch: whether a halfword starts a 32-bit instruction is decided from its top five bits only (also in C13)
    us.append(UnitSpec('fetch/thumb', 'vf.c13', 'mk_fetch', dict(thumb=True, arch=7)))
    # operand extraction / UNDEFINED outcomes: every table row of this instruction set through the real
    # emulate_cycle with the instruction word fully symbolic; quick: a fixed register file of pairwise distinct
    # values (cheap: no data-dependent paths); thorough: registers symbolic as in the functional checks
    step.load_tables(T)
    from spec.isa import ISA
    rows = [n for n, e in ISA.items() if e.iset in ('T16', 'T32')]
    fams = set(ISA[n].family for n in rows)
    if tier == 'quick':
        light = [n for n in rows if ISA[n].family not in ('mul', 'blk')]  # (multiply rows: thorough tier; block
        # transfers: windowed register lists below)
        # (outside IT blocks: the IT-state dependence of decode is the decoder-path claim above; conditional
        # execution inside blocks is C05/C08 and the thorough tier here)
        us += famcheck.family_units(fams, [7], T, only=light, tag='/operands', reg_values='distinct', it='none')
    else:
        us += famcheck.family_units(fams, [7], T, only=[n for n in rows if ISA[n].family != 'blk'], tag='/operands')
    # decode may depend on processor state only through the CURRENT IT state and carry flag: the same concrete
    # encoding is first run from a state with unrelated flags / IT state, the snapshot re-installed, and the step must
    # decode (set-flags from InITBlock(), ThumbExpandImm_C carry) as the tables say for the current state
    PRE = [('AddImmediateThumbT2', {'Rdn': 1, 'imm8': 1}), ('MovImmediateT1', {'Rd': 0, 'imm8': 0}),
           ('LslImmediateT1', {'imm5': 3, 'Rm': 1, 'Rd': 2}),
           ('AndImmediateT1', {'i': 0, 'S': 1, 'Rn': 1, 'imm3': 0, 'Rd': 2, 'imm8': 0x55}),
           ('MovImmediateT2', {'i': 0, 'S': 1, 'imm3': 0, 'Rd': 1, 'imm8': 0x42}),
           ('AndRegisterT2', {'S': 1, 'Rn': 2, '_sb0': 0, 'imm3': 0, 'Rd': 3, 'imm2': 0, 'type': 0, 'Rm': 4})]
    for r, fx in PRE:
        if r in ISA:
            us += famcheck.family_units({ISA[r].family}, [7], T, only=[r], tag='/prehistory-same-iset',
                                        prehistory='same-iset', fix=dict(fx))
    from spec import isa_blk
    for n in rows:
        if ISA[n].family == 'blk':
            for uname, opts in isa_blk.units(n, 7, 'std'):
                label = uname.rsplit('/', 1)[1]
                if tier == 'quick' and label not in ('LO', 'HI', 'SYM', 'SYMRN', 'ALL'):
                    continue
                opts = dict(opts, tables=T)
                if tier == 'quick':
                    opts['reg_values'] = 'distinct'
                    opts['it'] = 'none'
                from vf import c03
                for suf, o2 in c03.split_window(label, opts):
                    us.append(UnitSpec(uname + '/operands' + suf, 'vf.step', 'mk_step', o2, max_seconds=1800, weight=3,
                                       allow_vacuous=bool(suf)))
    return us


META = {
    'explanation': 'Bounded symbolic verification of the real Thumb decoder trees (thumb_instruction_set and its 31 '
                   'sub-decoders): all 2^16 16-bit encodings (sharded on bits 15:8, IT state symbolic: inside / outside '
                   '/ last) and all 2^32 32-bit encodings (sharded on hw1[12:4]); per decoder path the solver shows '
                   'that no word on the path is a defined word of a different instruction row of the tables; path '
                   'conditions mention only the word and the IT state. fetch_instruction decides 16 vs 32 bit from '
                   'hw1[15:11] only. Operand extraction incl. ThumbExpandImm is covered by the functional rows '
                   '(C01-C04, C09, C12) and the C17 lemma.',
    'bounds': ['exhaustive over all 16-bit and 32-bit Thumb words within the table coverage'],
    'bounds_history': ['history independence of decode: 6 concrete Thumb encodings whose decode reads InITBlock() / the carry, each first executed from unrelated flags and IT state'],
    'bounds_rows': ['quick: operand rows run outside IT blocks with a fixed register file of pairwise distinct values (instruction word, flags, mode, memory symbolic); thorough: registers and ITSTATE symbolic'],
    'outside': ['VFP / Advanced SIMD spaces', 'UNPREDICTABLE forms'],
    'stubs': stubs.STUBS_DOC,
    'trusted_base': ['z3', 'symx engine', 'encoding diagrams in spec/isa_*.py'],
    'assumptions': [],
}


def main(tier, seed):
    meta = dict(META)
    meta['checker_cmd'] = './check %s %s' % (PID, tier)
    lem = runner.run_lemmas(('sec',))
    return runner.main_run(PID, tier, units(tier, seed), meta, lemma_results=lem)
