"""C10: register file integrity -- banking per B1.3.2 for every (register, mode) pair from an arbitrary register
file (one inductive step covers every history of writes / reads / mode switches), and the 32-bit range invariant
after exception entries and after every instruction row of the functional tables."""
import z3

from symx import stubs
from vf import c11, lemmas, runner, famcheck
from vf.runner import UnitSpec

REG_LEMMAS = ('get_rmode', 'set_rmode', 'get', 'set', 'get_spsr', 'set_spsr')


def units(tier, seed=0):
    us = []
    for cn in ('sec', 'nosec', 'virt'):
        for name in REG_LEMMAS:
            us.append(UnitSpec('banking/%s/%s' % (name, cn), 'vf.lemmas', 'mk_reg_lemma', {'name': name, 'cfgname': cn},
                               summaries=False, weight=3))
    # range invariant after every exception entry (each compare claim includes 0 <= value < 2^32)
    for u in c11.units('quick' if tier == 'quick' else 'thorough', seed):
        u.name = 'range/' + u.name
        us.append(u)
    # range invariant after instructions: a sample of rows whose results are prone to leave the range
    from vf import step
    tables = list(step.FAMILIES)  # integrated (stable) tables only
    risky = ['LdrRegisterArmA1', 'LdrImmediateArmA1', 'BlxRegisterA1', 'BlxRegisterT1', 'LdmdaA1', 'LdmdbA1', 'PushA1',
             'PopArmA1', 'MulA1', 'UmlalA1', 'SmlalA1', 'SubSpMinusImmediateA1', 'AdrA2', 'BA1', 'BT3', 'CbzT1', 'TbbTbhT1',
             'SdivA1', 'SmmlsA1', 'QdsubA1', 'RfeA1', 'SrsArmA1']
    step.load_tables(tables)
    from spec.isa import ISA
    from spec import isa_blk
    blk = [r for r in risky if r in isa_blk.KIND]
    only = [r for r in risky if r in ISA and r not in isa_blk.KIND]
    # block transfers: windowed register lists (see C03), the windows around SP/LR/PC and the low registers
    for name in blk:
        for arch in ([7] if tier == 'quick' else [6, 7]):
            for uname, opts in isa_blk.units(name, arch, 'std', labels=('LO', 'HI', 'LO8', 'HI8', 'SYM')):
                from vf import c03
                for suf, o2 in c03.split_window(uname.rsplit('/', 1)[1], opts):  # wide windows: one unit per case
                    us.append(UnitSpec('range/' + uname + suf, 'vf.step', 'mk_step', o2, max_seconds=2400, weight=3,
                                       allow_vacuous=bool(suf)))
    fams = set(ISA[r].family for r in only)
    if tier == 'quick':
        us += famcheck.family_units(fams, [7], tables, only=only, tag='/range')
    else:
        us += famcheck.family_units(fams, [6, 7], tables, only=only, tag='/range')
    # instructions that name another mode's bank explicitly (user-bank LDM/STM, SRS, RFE, SPSR moves, mode changes):
    # from an arbitrary mode, every physical register / SPSR of every bank must end up as the bank table says
    from spec import isa_blk
    for name, labels in (('LdmUserRegistersA1', ('MID', 'HI')), ('StmUserRegistersA1', ('MID', 'HI')),
                         ('SrsArmA1', None), ('RfeA1', None), ('SrsThumbT1', None), ('RfeT2', None)):
        for uname, opts in isa_blk.units(name, 7, 'std', labels=labels):
            us.append(UnitSpec('bank/' + uname, 'vf.step', 'mk_step', opts, max_seconds=2400, weight=3))
    bank_rows = ['MrsSystemA1', 'MsrRegisterSystemA1', 'CpsArmA1', 'SubsPcLrArmA1', 'MsrImmediateSystemA1']
    us += famcheck.family_units(set(ISA[r].family for r in bank_rows if r in ISA), [7] if tier == 'quick' else [6, 7], tables, only=bank_rows, tag='/bank')
    return us


META = {
    'explanation': 'Bounded symbolic verification of the real register file: Registers.get/set/get_rmode/set_rmode/'
                   'get_spsr/set_spsr are executed from an ARBITRARY register file (34 physical registers, 7 SPSRs '
                   'symbolic) with symbolic register number and mode (all 32 mode encodings) and compared with the '
                   'B1.3.2 bank table: a write is visible exactly in the modes sharing the bank and every other '
                   'physical register keeps its value. Because the step starts from an arbitrary state this covers '
                   'every history of writes, reads and mode switches (one-step induction; invariant: every entry is '
                   'a value in [0,2^32)). The range invariant is checked after every exception entry and after the '
                   'instruction rows most prone to unwrapped arithmetic, and the rows that name another mode bank '
                   'explicitly (LDM/STM user registers with R8-R14 listed, SRS, RFE, SPSR moves, CPS, exception return) '
                   'are stepped from an arbitrary mode with all 34 physical registers compared; the full functional tables (C01-C04, C09, '
                   'C12) assert it for every row they cover.',
    'bounds': ['configurations enumerated: {security, no security, security+virtualization}', 'single step from an '
               'arbitrary state (histories covered inductively)'],
    'outside': ['UNPREDICTABLE encodings in the range part (see C18 for totality)'],
    'stubs': stubs.STUBS_DOC,
    'trusted_base': ['z3', 'symx engine', 'bank table transcription in spec/state.py'],
    'assumptions': ['register numbers 0..14 for the banked accessors (asserted by the code), any 5-bit mode'],
}


def main(tier, seed):
    lem = runner.run_lemmas(('sec', 'nosec', 'virt'))
    meta = dict(META)
    meta['checker_cmd'] = './check C10 %s' % tier
    return runner.main_run('C10', tier, units(tier, seed), meta, lemma_results=lem)
