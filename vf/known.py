"""known_findings.json access (read-only at run time)."""
import json
import os

VERIF = os.path.dirname(os.path.dirname(os.path.abspath(__file__)))


def load():
    p = os.path.join(VERIF, 'known_findings.json')
    if not os.path.exists(p):
        return []
    with open(p) as f:
        return json.load(f).get('findings', [])


def open_ids():
    return set(k['id'] for k in load() if k.get('status') == 'open')


def open_for(pid):
    return [k for k in load() if k.get('status') == 'open' and pid in k.get('properties', [k.get('property')])]
