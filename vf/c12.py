"""C12: system instructions -- PSR write masks, exception return, hints, coprocessor gating."""
import z3

from spec import pseudo as P
from symx import core, stubs
from symx.core import to_bv
from vf import famcheck, runner, step
from vf import machine as MC
from vf.runner import UnitSpec
from vf.unit import eq, holds

TABLES = ['isa_sys', 'isa_br']
HINTS = ['NopA1', 'NopT1', 'NopT2', 'YieldA1', 'YieldT1', 'YieldT2', 'WfeA1', 'WfeT1', 'WfeT2', 'WfiA1', 'WfiT1', 'WfiT2',
         'SevA1', 'SevT1', 'SevT2', 'SvcA1', 'SvcT1', 'SmcA1', 'SmcT1', 'BkptA1', 'BkptT1', 'UdfA1', 'UdfT1', 'UdfT2']

CTRL = {'scr': 0x31, 'nsacr': 1 << 19, 'sctlr': 1 << 27}  # SCR.{NS,FW,AW}, NSACR.RFR, SCTLR.NMFI
COPROC = {'cpacr': 0x0FFFFFFF, 'nsacr': 0x3FFF, 'scr': 1}


def mk_psr_write(which, excp_return, cfgname, thumb=False):
    """CPSRWriteByInstr / SPSRWriteByInstr: all 32 value bits, 4 mask bits, whole current CPSR, SCR.{NS,AW,FW},
    SCTLR.NMFI, NSACR.RFR symbolic"""
    from vf.c11 import CONFIGS

    def fn(env):
        cfg, ov = MC.std_cfg(arch=7, **CONFIGS[cfgname])
        sym = dict(CTRL) if cfg['sec'] else {'sctlr': 1 << 27}
        m = MC.Machine(env, cfg, ov, thumb=thumb, it='any', e_sym=True, sym_sys=sym)
        value = env.var('value', 32)
        mask = env.var('bytemask', 4)
        S = m.pre.copy()
        if which == 'cpsr':
            S.cpsr_write_by_instr(to_bv(value, 32), to_bv(mask, 4), excp_return)
        else:
            S.spsr_write_by_instr(to_bv(value, 32), to_bv(mask, 4))
        env.assume(z3.Not(S.unpred))
        if which == 'cpsr':
            m.arm.registers.cpsr_write_by_instr(value, mask, excp_return)
        else:
            m.arm.registers.spsr_write_by_instr(value, mask)
        cl = m.compare(S, skip=('sys.itstate_restored',))
        # direct statements of the property, independent of the oracle structure
        post = to_bv(m.snapshot()['cpsr'], 32)
        pre = m.pre.cpsr
        if which == 'cpsr':
            usr = m.pre.is_mode('usr')
            cl.append(holds('unprivileged code cannot alter A/I/F/M',
                            z3.Implies(usr, z3.And(P.bits(post, 8, 6) == P.bits(pre, 8, 6),
                                                   P.bits(post, 4, 0) == P.bits(pre, 4, 0)))))
            if not excp_return:
                cl.append(holds('execution-state bits (T, J, IT) change only on exception return',
                                z3.And(P.bits(post, 5, 5) == P.bits(pre, 5, 5), P.bits(post, 24, 24) == P.bits(pre, 24, 24),
                                       P.bits(post, 15, 10) == P.bits(pre, 15, 10),
                                       P.bits(post, 26, 25) == P.bits(pre, 26, 25))))
            cl.append(holds('no illegal mode number is installed', z3.Not(m.pre.bad_mode(P.bits(post, 4, 0)))))
        return cl
    return fn


RETURNS = {  # exception kind -> (return instruction word (ARM), LR adjustment)
    'svc': (0xE1B0F00E, 0),      # MOVS PC, LR
    'undef': (0xE1B0F00E, 0),    # MOVS PC, LR  (returns after the undefined instruction)
    'irq': (0xE25EF004, 4),      # SUBS PC, LR, #4
    'fiq': (0xE25EF004, 4),
    'dabort': (0xE25EF008, 8),   # SUBS PC, LR, #8  (re-executes the aborted instruction)
}


def mk_roundtrip(kind, thumb):
    """entry + matching standard return: the interrupted program resumes with its CPSR, registers and PC"""
    def fn(env):
        from armulator.armv6.arm_exceptions import DataAbortException
        from armulator.armv6.enums import DAbort
        from spec import isa
        from spec.isa import ISA
        from spec.state import MODE
        step.load_tables(TABLES)
        cfg, ov = MC.std_cfg(arch=7, sec=True)
        word, adj = RETURNS[kind]
        # handlers run in ARM state, normal vectors, non-monitor routing: SCTLR.TE = 0, V = 0, SCR = 0
        sctlr = 0x00C50078 & ~(1 << 30) | (1 << 22)

        def build():
            m = MC.Machine(env, cfg, ov, thumb=thumb, it='any', e_sym=True, set_sys={'sctlr': sctlr, 'scr': 0},
                           sym_sys={'vbar': 0xFFFFFFE0})
            S1 = m.pre.copy()
            {'svc': S1.take_svc_exception, 'undef': S1.take_undef_instr_exception,
             'irq': S1.take_physical_irq_exception, 'fiq': S1.take_physical_fiq_exception,
             'dabort': lambda: S1.take_data_abort_exception(alignment_fault=z3.BoolVal(False))}[kind]()
            S1.branched = z3.BoolVal(False)
            m.place_instruction(z3.BitVecVal(word, 32), 32, at=S1.R['PC'], thumb=False)
            S1.mem = m.pre.mem
            S1.thumb = False
            E = ISA['SubsPcLrArmA2' if word == 0xE1B0F00E else 'SubsPcLrArmA1']
            mt, f = E.match(z3.BitVecVal(word, 32))
            f = {k: z3.simplify(v) for k, v in f.items()}
            S2, unp, info = isa.step(S1, E, f)
            env.assume(z3.Not(unp))
            m.S1, m.S2 = S1, S2
            return m

        def run(m):
            r = m.arm.registers
            {'svc': r.take_svc_exception, 'undef': r.take_undef_instr_exception, 'irq': r.take_physical_irq_exception,
             'fiq': r.take_physical_fiq_exception,
             'dabort': lambda: r.take_data_abort_exception(DataAbortException(DAbort.PERMISSION, False))}[kind]()
            m.arm.emulate_cycle()
        m = MC.stepper(env, build, run)
        cl = m.compare(m.S2)
        snap = m.snapshot()
        pre = m.pre
        post_cpsr = to_bv(snap['cpsr'], 32)
        exp_cpsr = pre.cpsr
        if kind == 'svc':
            t = pre.copy()
            t.it_advance()
            exp_cpsr = t.cpsr
        cl.append(holds('CPSR of the interrupted program restored', post_cpsr == exp_cpsr))
        pc0 = pre.R['PC']
        if kind in ('svc', 'undef'):
            # the SVC / undefined instruction has length 4 (ARM) / 2 (Thumb, 16-bit form assumed by the handler LR)
            exp_pc = pc0 + (2 if thumb else 4)
        else:
            exp_pc = pc0
        cl.append(eq('PC = preferred return address', snap['R.PC'], exp_pc, 32))
        target = {'svc': 'svc', 'undef': 'und', 'irq': 'irq', 'fiq': 'fiq', 'dabort': 'abt'}[kind]
        for name in MC.RNAMES:
            if name == 'PC' or name.endswith(target):
                continue
            cl.append(eq('register %s of the interrupted context intact' % name, snap['R.' + name], pre.R[name], 32))
        return cl
    return fn


def units(tier, seed=0):
    us = []
    for kind in RETURNS:
        for thumb in (False, True):
            us.append(UnitSpec('roundtrip/%s/%s' % (kind, 'thumb' if thumb else 'arm'), 'vf.c12', 'mk_roundtrip',
                               dict(kind=kind, thumb=thumb), weight=3))
    cfgs = ['sec'] if tier == 'quick' else ['sec', 'nosec', 'virt']
    for cn in cfgs:
        for er in (False, True):
            us.append(UnitSpec('cpsr_write_by_instr/%s/%s' % ('return' if er else 'instr', cn), 'vf.c12', 'mk_psr_write',
                               dict(which='cpsr', excp_return=er, cfgname=cn), weight=5))
        us.append(UnitSpec('spsr_write_by_instr/%s' % cn, 'vf.c12', 'mk_psr_write',
                           dict(which='spsr', excp_return=False, cfgname=cn), weight=5))
    archs = [7] if tier == 'quick' else [6, 7]
    step.load_tables(TABLES)
    from spec.isa import ISA
    cop = [n for n, e in ISA.items() if e.family == 'sys' and n.startswith(('Cdp', 'Mcr', 'Mrc', 'Mrrc', 'Ldc', 'Stc'))]
    psr = [n for n, e in ISA.items() if e.family == 'sys' and n.startswith(('Msr', 'Cps', 'Subs', 'Eret', 'Mrs'))]
    rest = [n for n, e in ISA.items() if e.family == 'sys' and n not in cop and n not in psr]
    us += famcheck.family_units({'sys'}, archs, TABLES, only=rest)
    heavy = ['SubsPcLrArmA2']  # 16 opcodes x 5 shift kinds x control bits: split into two complementary units
    us += famcheck.family_units({'sys'}, archs, TABLES, only=[n for n in psr if n not in heavy], sym_sys=CTRL)
    us += famcheck.family_units({'sys'}, archs, TABLES, only=heavy)
    us += famcheck.family_units({'sys'}, archs, TABLES, only=heavy, sym_sys=CTRL, tag='/ctrl-sym',
                                fix={'opcode': 0b0010, 'type': 0})
    us += famcheck.family_units({'sys'}, archs, TABLES, only=cop, sym_sys=COPROC)
    # coprocessor gating with the Virtualization Extensions (mode symbolic incl. Hyp; NSACR applies in Hyp mode, CPACR
    # does not): cp0..cp13 with HCPTR.TCP symbolic (a trapping access is outside the claim)
    vcop = [n for n in cop if n.startswith(('McrMcr2', 'CdpCdp2'))] if tier == 'quick' else cop
    us += famcheck.family_units({'sys'}, [7], TABLES, only=vcop, virt=True, tag='/virt',
                                sym_sys=dict(COPROC, hcptr=0x3FFF))
    us += famcheck.family_units({'br_misc'}, archs, TABLES, only=HINTS)
    return us


META = {
    'explanation': 'Bounded symbolic verification of the real code. (a) Registers.cpsr_write_by_instr / '
                   'spsr_write_by_instr with all 32 value bits, the 4 mask bits, the whole current CPSR (every mode), '
                   'SCR.{NS,AW,FW}, SCTLR.NMFI, NSACR.RFR symbolic: post-CPSR/SPSR equals the B1.3.3 pseudocode, plus '
                   'the direct statements (User mode cannot alter A/I/F/M; T/J/IT change only on exception return; no '
                   'illegal mode installed). (b) every row of the system family -- MRS, MSR (imm/reg, application / '
                   'system), CPS, SETEND, SUBS PC,LR (ARM, Thumb), ERET, coprocessor instructions gated by Coproc_'
                   'Accepted (NSACR/CPACR symbolic: UNDEFINED when denied, the mock hook NotImplementedError when '
                   'accepted), barriers, preloads -- and the hint / exception-generating rows (NOP, YIELD, WFE, WFI, '
                   'SEV, SVC, SMC, BKPT, UDF) stepped through emulate_cycle and compared with the A8.8/B9.3 pseudocode '
                   'including exception entry. Exception entry + matching return round trips follow from C11 (entry '
                   'saves CPSR/return address) composed with these return rows (CPSR := SPSR, PC := LR - offset).',
    'bounds': ['configurations enumerated (quick: security ext; thorough: +no security, +virtualization for (a))',
               'arch 7 (quick) / 6,7 (thorough) for the rows', 'UNPREDICTABLE inputs excluded'],
    'outside': ['banked-register MRS/MSR (not implemented in the repository)', 'Hyp traps of coprocessor accesses',
                'LDM (exception return) and RFE are block-transfer rows (C03)'],
    'stubs': stubs.STUBS_DOC,
    'trusted_base': ['z3', 'symx engine', 'spec/state.py CPSRWriteByInstr transcription', 'oracle rows spec/isa_sys.py'],
    'assumptions': ['valid machine state'],
}


def main(tier, seed):
    lem = runner.run_lemmas(('sec', 'nosec', 'virt') if tier == 'thorough' else ('sec',))
    meta = dict(META)
    meta['checker_cmd'] = './check C12 %s' % tier
    return runner.main_run('C12', tier, units(tier, seed), meta, lemma_results=lem)
