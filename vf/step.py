"""H-step: one instruction of a given encoding from an arbitrary valid machine state, through the real
ArmV6.emulate_cycle (fetch, decode, from_bitarray, execute, PC increment, exception dispatch), compared with
the oracle's step."""
import importlib

import z3

from spec import pseudo as P
from spec import isa
from spec.isa import ISA
from symx import core
from vf import machine as MC
from vf.unit import eq, holds

FAMILIES = ['isa_dp', 'isa_ls', 'isa_ls_wb', 'isa_ls_hd', 'isa_br', 'isa_sys', 'isa_simd', 'isa_sat', 'isa_mul', 'isa_blk']
_loaded = set()


def available_tables():
    """every spec/isa_*.py table module present on disk"""
    import glob
    import os
    d = os.path.join(os.path.dirname(os.path.dirname(os.path.abspath(__file__))), 'spec')
    return sorted(os.path.basename(p)[:-3] for p in glob.glob(os.path.join(d, 'isa_*.py')))


def load_tables(mods=None):
    for m in (mods or FAMILIES):
        if m not in _loaded:
            importlib.import_module('spec.' + m)
            _loaded.add(m)
    return ISA


def specialise(env, exp, info):
    """The oracle state is computed once per unit as a function of the symbolic inputs.  On one explored path the
    conditions it is merged on (condition passed, UNDEFINED, in an IT block, exception taken) are usually decided by
    the path condition: decide each with the solver (pc => c, pc => not c) and substitute the constant, so that the
    remaining obligation compares the executed branch only (same claim, by pc-equivalence; undecided conditions are
    left alone)."""
    if not env.symbolic:
        return exp
    subs = []
    for c in info.get('facts', []):
        if z3.is_true(c) or z3.is_false(c):
            continue
        if core.CTX.check(z3.Not(c)) == z3.unsat:
            subs.append((c, z3.BoolVal(True)))
        elif core.CTX.check(c) == z3.unsat:
            subs.append((c, z3.BoolVal(False)))
    if not subs:
        return exp
    return exp.map_terms(lambda t: z3.simplify(z3.substitute(t, *subs)))


def mk_step(enc, arch=6, sec=True, virt=False, vmsa=False, mode=None, it='any', e_sym=False, sym_sys=None,
            set_sys=None, tables=None, expect_class=True, extra_assume=None, fix=None, failed_cond=False,
            havoc_scratch=False, foreign_config=None, reg_values=None, prehistory=None, mpu=None, mpu_rsize=None,
            foreign_before=None):
    """unit: all fields of the encoding, all registers/flags/mode symbolic"""
    cache = {}
    from vf import known
    open_ids = known.open_ids()

    def fn(env):
        load_tables(tables)
        E = ISA[enc]
        cfg, ov = MC.std_cfg(arch=arch, sec=sec, virt=virt, vmsa=vmsa)
        box = cache if env.symbolic else {}
        ssym, sset = dict(sym_sys or {}), dict(set_sys or {})
        if mpu:
            # PMSA with the MPU enabled: `mpu` regions with symbolic enable / size / subregion-disable / base / AP,
            # MPUIR.DRegion = mpu, SCTLR.M = 1, SCTLR.BR symbolic; the oracle's memory helpers then apply the
            # protection checks (spec/isa.py _protection) with the privilege of the access
            from vf import c14
            rs, rset = c14.region_sym(mpu, rsize=mpu_rsize)
            ssym.update(rs)
            sset.update(rset)
            sset['mpuir'] = mpu << 8
            sset['sctlr'] = sset.get('sctlr', 0x40050078) | 1
            ssym['sctlr'] = ssym.get('sctlr', 0) | (1 << 17)
            cfg = dict(cfg, mpu_k=mpu)

        def build():
            if foreign_before is not None:
                # C20: ANOTHER processor instance, created from a different configuration file, has been constructed
                # and stepped (two instructions from its reset state) before this instance is even constructed.  This
                # instance's configuration is the one loaded last, so its step must equal its solo step -- unless
                # something derived from the foreign configuration or run survives process-wide (a cached getter)
                from armulator.armv6.arm_v6 import ArmV6 as _A
                fcfg, fov = MC.std_cfg(**foreign_before)
                fa = _A(MC.config_path(**fov))
                for _ in range(2):
                    try:
                        fa.emulate_cycle()
                    except Exception:
                        pass
            m = MC.Machine(env, cfg, ov, thumb=E.thumb, mode=mode, it=(it if E.thumb else 'none'), e_sym=e_sym,
                           sym_sys=ssym, set_sys=sset, reg_values=reg_values)
            if mpu:
                # the instruction fetch itself is a (data-read) access of the current privilege: assume it is allowed
                from spec import pmsa
                pc0 = m.pre.R['PC']
                for a in ([pc0] if E.length == 16 or not E.thumb else [pc0, pc0 + 2]):
                    o = pmsa.translate_p(m.pre, a, m.pre.privileged(), z3.BoolVal(False), mpu)
                    env.assume(z3.And(z3.Not(o['fault']), z3.Not(o['unpred'])))
            fixed = fix or {}

            def mkvar(name, w):
                if name[2:] in fixed:
                    return z3.BitVecVal(fixed[name[2:]], w)
                return env.bvvar(name, w)
            word, f = E.word(mkvar)
            m.fields = f
            m.word = word
            env.assume(E.g(f))
            m.place_instruction(word, E.length)
            # oracle first: its UNPREDICTABLE predicate is an assumption on the inputs
            if 'oracle' not in box:
                box['oracle'] = isa.step(m.pre, E, f) + (m.pre,)
            exp, unp, info, pre0 = box['oracle']
            if failed_cond:
                # oracle-free statement of "a failed condition makes the instruction a no-op": nothing changes
                # except PC += length and the IT-state advance (uses the row only to locate the condition field)
                if 'noop' not in box:
                    N = pre0.copy()
                    N.R['PC'] = pre0.R['PC'] + E.length // 8
                    if E.thumb:
                        it0 = pre0.it()
                        N.set_it(z3.If(P.bits(it0, 3, 0) != 0, P.it_advance(it0), it0))
                    box['noop'] = N
                exp = box['noop']
                env.assume(z3.Not(info['passed']))
                env.assume(z3.Not(info['undefined']))
            m.exp, m.unp, m.info = exp, unp, info
            m.pre_ident = pre0
            env.assume(z3.Not(unp))
            for fid, region in E.known:
                if fid in open_ids and env.symbolic:  # (witness replays must be able to reach the region)
                    env.assume(z3.Not(region(f, m.pre)))
            if extra_assume:
                env.assume(extra_assume(m))
            arm = m.arm
            if havoc_scratch:
                # per-step scratch state holds arbitrary left-overs of whatever ran before (C20)
                arm.opcode = env.var('scratch_opcode', 32)
                arm.opcode_len = 16 if bool(env.boolvar('scratch_len16')) else 32
                arm.executed_opcode = object()
                arm.registers.changed_registers = [env.boolvar('scratch_chg%d' % i) for i in range(16)]
                arm.run = True
            if foreign_config is not None:
                # another processor instance is created (possibly from a different configuration file) between
                # this instance's construction and its step (C20 isolation)
                from armulator.armv6.arm_v6 import ArmV6 as _A
                fcfg, fov = MC.std_cfg(**foreign_config)
                _A(MC.config_path(**fov))
            m.decoded = []
            m.executed = []
            od, oe = arm.decode_instruction, arm.execute_instruction

            def dec(instr):
                c = od(instr)
                m.decoded.append(c)
                return c

            def exe(op):
                m.executed.append(op)
                return oe(op)
            arm.decode_instruction = dec
            arm.execute_instruction = exe
            return m

        def run(m):
            m.escaped = None
            if prehistory == 'other-iset':
                # history before the snapshot: the same instruction bits are first executed in the OTHER instruction
                # set (whatever happens, incl. exceptions), then the machine is put back into the snapshot state
                regs = m.arm.registers
                c0 = regs.cpsr.value
                regs.cpsr.t = 0 if E.thumb else 1
                regs.cpsr.it = 0
                if E.length == 32:
                    # the same 32 bits laid out for the other instruction set's fetch
                    w = m.word
                    if E.thumb:   # now ARM: little-endian word
                        bs = [P.bits(w, 8 * i + 7, 8 * i) for i in range(4)]
                    else:         # now Thumb: hw1 then hw2, each little-endian
                        bs = [P.bits(w, 23, 16), P.bits(w, 31, 24), P.bits(w, 7, 0), P.bits(w, 15, 8)]
                    pc = m.pre.R['PC']
                    if env.symbolic:
                        arr = m.mem.array
                        for i, b in enumerate(bs):
                            arr = z3.Store(arr, z3.simplify(pc + i), z3.simplify(b))
                        m.mem.array = arr
                    else:
                        pcv = z3.simplify(pc).as_long()
                        from vf.machine import ReplayMem
                        for i, b in enumerate(bs):
                            a = (pcv + i) & 0xFFFFFFFF
                            v = z3.simplify(b).as_long()
                            if isinstance(m.arm.mem, ReplayMem):
                                m.arm.mem.content[a] = v
                            else:
                                for mc in m.arm.mem.memories:
                                    if mc.beginning <= a < mc.end:
                                        mc.mem.memory_array[a - mc.beginning] = v
                try:
                    m.arm.emulate_cycle()
                except Exception:
                    pass
                m.reinstall_pre()
                m.decoded, m.executed = [], []
            elif prehistory == 'same-iset':
                # history before the snapshot: the same instruction bits are first executed in the SAME instruction set
                # from a state whose flags and IT state are unrelated (fresh solver variables) to the snapshot's --
                # state-derived decode results (set-flags from InITBlock(), the carry operand) must not be remembered
                regs = m.arm.registers
                val = regs.cpsr.value
                fl = env.var('pre_nzcv', 4)
                val = (val & ~(0xF << 28)) | (fl << 28)
                if E.thumb:
                    itv = env.var('pre_it', 8)
                    IT = core.to_bv(itv, 8)
                    env.assume(z3.Or(IT == 0, z3.Extract(3, 0, IT) != 0))
                    val = (val & ~0x0600FC00) | ((itv & 3) << 25) | ((itv >> 2) << 10)
                regs.cpsr.value = val
                try:
                    m.arm.emulate_cycle()
                except Exception:
                    pass
                m.reinstall_pre()
                m.decoded, m.executed = [], []
            try:
                m.arm.emulate_cycle()
            except Exception as ex:
                from vf.unit import from_code
                if not from_code(ex):
                    raise
                m.escaped = ex

        m = MC.stepper(env, build, run)
        cl = []
        if isinstance(m.escaped, NotImplementedError):
            env.note('outcome', 'NotImplementedError')
            return [holds('NotImplementedError only where the table expects an unimplemented feature',
                          m.info['notimpl'])]
        cl.append(holds('no NotImplementedError expected here', z3.Not(m.info['notimpl'])))
        if m.escaped is not None:
            ex = m.escaped
            env.note('outcome', 'escaped:' + type(ex).__name__)
            import traceback
            from vf.unit import _tb_tail
            cl.append(('no exception escapes emulate_cycle', z3.BoolVal(False),
                       '%s: %s @ %s' % (type(ex).__name__, ex, _tb_tail(ex))))
            return cl
        if expect_class:
            got = m.decoded[0].__name__ if m.decoded and m.decoded[0] is not None else None
            cl.append(('decoder selects %s' % enc, z3.BoolVal(got == enc), 'got %s' % got))
        env.note('outcome', 'executed' if m.executed else 'no-execute')
        cl += m.compare(specialise(env, m.exp, m.info) if not failed_cond else m.exp)
        return cl
    return fn
