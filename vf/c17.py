"""C17: bit-vector primitives and register field views vs. the architecture pseudocode.
These units are also the lemmas that justify the summaries used by every other check."""
import importlib
import inspect
import pkgutil

import z3

from spec import pseudo as P
from spec import regs as R
from symx import core
from symx.core import to_bv, in_range
from vf.unit import eq, eqb, holds
from vf.runner import UnitSpec

BV = z3.BitVecVal


def _b(x, w):
    return to_bv(x, w)


# ---------------------------------------------------------------------------
# bits_ops
# ---------------------------------------------------------------------------

def mk_add_with_carry(size):
    def fn(env):
        from armulator.armv6 import bits_ops
        x, y, c = env.var('x', size), env.var('y', size), env.var('c', 1)
        r, co, ov = bits_ops.add_with_carry(x, y, c, size)
        er, eco, eov = P.add_with_carry(_b(x, size), _b(y, size), _b(c, 1))
        return [eq('result', r, er, size), eq('carry_out', co, P.bv(eco, 1), 1), eq('overflow', ov, P.bv(eov, 1), 1)]
    return fn


def mk_bits_misc(size):
    """to_signed, to_unsigned, sign_extend, lower_chunk, bit_not, add, sub, align, bit_count, is_ones,
    lowest_set_bit_ref at one width"""
    def fn(env):
        from armulator.armv6 import bits_ops as B
        x, y = env.var('x', size), env.var('y', size)
        X, Y = _b(x, size), _b(y, size)
        cl = []
        # to_signed: the signed reading
        s = B.to_signed(x, size)
        cl.append(holds('to_signed', to_bv(s, size + 2) == P.sx(X, size + 2)))
        # to_unsigned of a signed value (two's complement of width size)
        w = env.var('w', size + 3)
        sw = w - (1 << (size + 2))  # range [-2^(size+2), 2^(size+2))
        cl.append(eq('to_unsigned', B.to_unsigned(sw, size), P.bits(_b(sw, size + 4), size - 1, 0), size))
        for dst in (size, size + 1, 2 * size, 32, 64):
            if dst >= size:
                cl.append(eq('sign_extend->%d' % dst, B.sign_extend(x, size, dst), P.sx(X, dst), dst))
        for k in sorted(set([1, size // 2 or 1, size])):
            cl.append(eq('lower_chunk %d' % k, B.lower_chunk(x, k), P.zx(P.bits(X, k - 1, 0), size), size))
        cl.append(eq('bit_not', B.bit_not(x, size), ~X, size))
        cl.append(eq('add', B.add(x, y, size), X + Y, size))
        cl.append(eq('sub', B.sub(x, y, size), X - Y, size))
        for a in (1, 2, 4, 8):
            if a < (1 << size):
                sh = a.bit_length() - 1
                exp = X if sh == 0 else P.cat(P.bits(X, size - 1, sh), BV(0, sh)) if sh < size else BV(0, size)
                cl.append(eq('align %d' % a, B.align(x, a), exp, size))
        pc = P.bit_count(X)
        cl.append(eq('bit_count ones', B.bit_count(x, 1, size), P.zx(pc, 16), 16))
        cl.append(eq('bit_count zeros', B.bit_count(x, 0, size), BV(size, 16) - P.zx(pc, 16), 16))
        cl.append(eqb('is_ones', B.is_ones(x, size), X == BV(-1, size)))
        return cl
    return fn


def mk_lowest_set_bit(size):
    def fn(env):
        from armulator.armv6 import bits_ops as B
        x = env.var('x', size)
        return [eq('lowest_set_bit_ref', B.lowest_set_bit_ref(x, size), P.zx(P.lowest_set_bit(_b(x, size)), 16), 16)]
    return fn


def mk_substring(size):
    """substring / set_substring / bit_at / set_bit_at / chain with symbolic (in-range) positions"""
    def fn(env):
        from armulator.armv6 import bits_ops as B
        x = env.var('x', size)
        X = _b(x, size)
        msb, lsb = env.var('msb', 7), env.var('lsb', 7)
        env.assume(core.tobool(lsb <= msb))
        env.assume(core.tobool(msb < size))
        M, L = _b(msb, size), _b(lsb, size)
        width = M - L + 1
        mask = z3.If(width == size, BV(-1, size), (BV(1, size) << width) - 1)
        cl = []
        cl.append(eq('substring', B.substring(x, msb, lsb), z3.LShR(X, L) & mask, size))
        v = env.var('v', size)
        V = _b(v, size)
        env.assume((V & ~mask) == 0)  # in-range field value
        cl.append(eq('set_substring', B.set_substring(x, msb, lsb, v), (X & ~(mask << L)) | (V << L), size))
        i = env.var('i', 7)
        env.assume(core.tobool(i < size))
        I = _b(i, size)
        f = env.var('f', 1)
        cl.append(eq('bit_at', B.bit_at(x, i), z3.LShR(X, I) & 1, size))
        cl.append(eq('set_bit_at', B.set_bit_at(x, i, f), (X & ~(BV(1, size) << I)) | (_b(f, size) << I), size))
        y = env.var('y', size)
        cl.append(eq('chain', B.chain(y, x, size), P.cat(_b(y, size), X), 2 * size))
        return cl
    return fn


def mk_sat(n):
    def fn(env):
        from armulator.armv6 import bits_ops as B
        w = env.var('w', 40)
        i = w - (1 << 39)  # signed 40-bit input
        I = _b(i, 42)
        cl = []
        r, s = B.signed_sat_q(i, n)
        er, es = P.signed_sat_q(I, n)
        cl += [eq('signed_sat_q.result', r, er, n), eqb('signed_sat_q.saturated', s, es)]
        r, s = B.unsigned_sat_q(i, n)
        er, es = P.unsigned_sat_q(I, n)
        cl += [eq('unsigned_sat_q.result', r, er, n), eqb('unsigned_sat_q.saturated', s, es)]
        cl.append(eq('signed_sat', B.signed_sat(i, n), P.signed_sat_q(I, n)[0], n))
        cl.append(eq('unsigned_sat', B.unsigned_sat(i, n), P.unsigned_sat_q(I, n)[0], n))
        u = env.var('u', 1)
        r, s = B.sat_q(i, n, u)
        eu = _b(u, 1) == 1
        cl.append(eq('sat_q.result', r, z3.If(eu, P.unsigned_sat_q(I, n)[0], P.signed_sat_q(I, n)[0]), n))
        cl.append(eqb('sat_q.saturated', s, z3.If(eu, P.unsigned_sat_q(I, n)[1], P.signed_sat_q(I, n)[1])))
        cl.append(eq('sat', B.sat(i, n, u), z3.If(eu, P.unsigned_sat_q(I, n)[0], P.signed_sat_q(I, n)[0]), n))
        return cl
    return fn


def mk_ber(n):
    def fn(env):
        from armulator.armv6 import bits_ops as B
        x = env.var('x', 8 * n)
        return [eq('big_endian_reverse', B.big_endian_reverse(x, n), P.big_endian_reverse(_b(x, 8 * n)), 8 * n)]
    return fn


# ---------------------------------------------------------------------------
# shift.py
# ---------------------------------------------------------------------------

def mk_shift_prims(size):
    """lsl_c/lsr_c/asr_c/ror_c/rrx_c and the non-carry forms, amount symbolic 1..255"""
    def fn(env):
        from armulator.armv6 import shift as Sh
        x, n, c = env.var('x', size), env.var('n', 8), env.var('c', 1)
        X, N = _b(x, size), _b(n, 8)
        env.assume(core.tobool(n > 0))
        cl = []
        for nm, pf in (('lsl', P.lsl_c), ('lsr', P.lsr_c), ('asr', P.asr_c), ('ror', P.ror_c)):
            r, co = getattr(Sh, nm + '_c')(x, size, n)
            er, ec = pf(X, N)
            cl += [eq(nm + '_c.result', r, er, size), eq(nm + '_c.carry', co, P.bv(ec, 1), 1)]
            cl.append(eq(nm, getattr(Sh, nm)(x, size, n), er, size))
        r, co = Sh.rrx_c(x, size, c)
        er, ec = P.rrx_c(X, _b(c, 1))
        cl += [eq('rrx_c.result', r, er, size), eq('rrx_c.carry', co, P.bv(ec, 1), 1)]
        cl.append(eq('rrx', Sh.rrx(x, size, c), er, size))
        return cl
    return fn


def _amount_for(size, n8):
    return P.zx(n8, max(size, 32))


def mk_shift_zero(size):
    """lsl/lsr/asr/ror with amount == 0 return the operand"""
    def fn(env):
        from armulator.armv6 import shift as Sh
        x = env.var('x', size)
        X = _b(x, size)
        return [eq('lsl 0', Sh.lsl(x, size, 0), X, size), eq('lsr 0', Sh.lsr(x, size, 0), X, size),
                eq('asr 0', Sh.asr(x, size, 0), X, size), eq('ror 0', Sh.ror(x, size, 0), X, size)]
    return fn


def mk_shift_c():
    """Shift_C / Shift for the five types, 32-bit value, amount 0..255 symbolic (RRX: amount 1)"""
    def fn(env):
        from armulator.armv6 import shift as Sh
        x, n, c = env.var('x', 32), env.var('n', 8), env.var('c', 1)
        t = env.var('type', 3)
        k = int(t) if not env.symbolic else core.sym_int(t).__index__()
        if k > 4:
            env.assume(False)
        srt = [Sh.SRType.LSL, Sh.SRType.LSR, Sh.SRType.ASR, Sh.SRType.ROR, Sh.SRType.RRX][k]
        if k == 4:
            env.assume(core.tobool(n == 1))
        X = _b(x, 32)
        er, ec = P.shift_c(X, k, P.zx(_b(n, 8), 32), _b(c, 1) == 1)
        r, co = Sh.shift_c(x, 32, srt, n, c)
        r2 = Sh.shift(x, 32, srt, n, c)
        return [eq('shift_c.result', r, er, 32), eq('shift_c.carry', co, P.bv(ec, 1), 1), eq('shift', r2, er, 32)]
    return fn


def mk_decode_shift():
    def fn(env):
        from armulator.armv6 import shift as Sh
        t, i = env.var('type', 2), env.var('imm5', 5)
        st, sn = Sh.decode_imm_shift(t, i)
        ek, ea = P.decode_imm_shift(_b(t, 2), _b(i, 5))
        kind = {Sh.SRType.LSL: 0, Sh.SRType.LSR: 1, Sh.SRType.ASR: 2, Sh.SRType.ROR: 3, Sh.SRType.RRX: 4}[st]
        cl = [holds('decode_imm_shift.type', ek == kind), eq('decode_imm_shift.amount', sn, ea, 6)]
        st2 = Sh.decode_reg_shift(t)
        kind2 = {Sh.SRType.LSL: 0, Sh.SRType.LSR: 1, Sh.SRType.ASR: 2, Sh.SRType.ROR: 3, Sh.SRType.RRX: 4}[st2]
        cl.append(holds('decode_reg_shift', P.decode_reg_shift(_b(t, 2)) == kind2))
        return cl
    return fn


def mk_expand_imm():
    def fn(env):
        from armulator.armv6 import shift as Sh
        imm12, c = env.var('imm12', 12), env.var('c', 1)
        I, C = _b(imm12, 12), _b(c, 1) == 1
        cl = []
        r, co = Sh.arm_expand_imm_c(imm12, c)
        er, ec = P.arm_expand_imm_c(I, C)
        cl += [eq('arm_expand_imm_c.imm32', r, er, 32), eq('arm_expand_imm_c.carry', co, P.bv(ec, 1), 1)]
        cl.append(eq('arm_expand_imm', Sh.arm_expand_imm(imm12), er, 32))
        r, co = Sh.thumb_expand_imm_c(imm12, c)
        er, ec, unp = P.thumb_expand_imm_c(I, C)
        cl += [eq('thumb_expand_imm_c.imm32', r, er, 32), eq('thumb_expand_imm_c.carry', co, P.bv(ec, 1), 1)]
        cl.append(eq('thumb_expand_imm', Sh.thumb_expand_imm(imm12), er, 32))
        return cl
    return fn


# ---------------------------------------------------------------------------
# register field views
# ---------------------------------------------------------------------------

def register_classes():
    import armulator.armv6.all_registers as pkg
    from armulator.armv6.all_registers.abstract_register import AbstractRegister
    out = {}
    for mi in pkgutil.iter_modules(pkg.__path__):
        m = importlib.import_module(pkg.__name__ + '.' + mi.name)
        for n, c in vars(m).items():
            if inspect.isclass(c) and issubclass(c, AbstractRegister) and c is not AbstractRegister:
                out[c.__name__] = c
    return out


def _new_reg(cls):
    if cls.__name__ == 'RGNR':
        return cls(12)
    return cls()


def _slice_term(V, sl):
    return P.bits(V, sl[0], sl[1])


def mk_fields(clsname):
    def fn(env):
        import armulator.armv6.arm_v6  # noqa
        from armulator.armv6.configurations import configurations
        if not configurations.configs:
            configurations.configs = {'reset_values': {}}
        cls = register_classes()[clsname]
        cl = []
        val = env.var('value', 32)
        V = _b(val, 32)
        table = R.FIELDS.get(clsname, {})
        comp = R.COMPOSITE.get(clsname, {})
        props = [n for n, o in inspect.getmembers(cls) if isinstance(o, property) and o.fset is not None]
        for name in props:
            if name in table:
                slices = [table[name]]
            elif name in comp:
                slices = comp[name]
            else:
                cl.append(holds('field %s.%s is in the architectural table' % (clsname, name), False))
                continue
            width = sum(a - b + 1 for a, b in slices)
            reg = _new_reg(cls)
            reg.value = val
            got = getattr(reg, name)
            want = P.cat(*[_slice_term(V, s) for s in slices])
            cl.append(eq('%s.%s get' % (clsname, name), got, want, width))
            cl.append(eq('%s.%s get leaves value' % (clsname, name), reg.value, V, 32))
            f = env.var('f_%s' % name, width)
            F = _b(f, width)
            reg = _new_reg(cls)
            reg.value = val
            setattr(reg, name, f)
            exp = V
            pos = width
            for a, b in slices:
                wpart = a - b + 1
                part = P.bits(F, pos - 1, pos - wpart)
                pos -= wpart
                hi = P.bits(exp, 31, a + 1) if a < 31 else None
                lo = P.bits(exp, b - 1, 0) if b > 0 else None
                exp = P.cat(*[t for t in (hi, part, lo) if t is not None])
            cl.append(eq('%s.%s set' % (clsname, name), reg.value, exp, 32))
        for g, s, rng, pos in R.INDEXED.get(clsname, []):
            for n in rng:
                a, b = pos(n)
                width = a - b + 1
                reg = _new_reg(cls)
                reg.value = val
                cl.append(eq('%s.%s(%d)' % (clsname, g, n), getattr(reg, g)(n), P.bits(V, a, b), width))
                f = env.var('fi_%s_%d' % (s, n), width)
                reg = _new_reg(cls)
                reg.value = val
                getattr(reg, s)(n, f)
                hi = P.bits(V, 31, a + 1) if a < 31 else None
                lo = P.bits(V, b - 1, 0) if b > 0 else None
                exp = P.cat(*[t for t in (hi, _b(f, width), lo) if t is not None])
                cl.append(eq('%s.%s(%d)' % (clsname, s, n), reg.value, exp, 32))
        if clsname == 'VBAR':
            reg = _new_reg(cls)
            reg.value = val
            cl.append(eq('VBAR.get_base_address', reg.get_base_address(), P.bits(V, 31, 5), 27))
            f = env.var('f_base', 27)
            reg.set_base_address(f)
            cl.append(eq('VBAR.set_base_address', reg.value, P.cat(_b(f, 27), P.bits(V, 4, 0)), 32))
        if clsname == 'RGNR':
            reg = _new_reg(cls)
            reg.value = val
            cl.append(eq('RGNR.get_region', reg.get_region(), P.bits(V, 3, 0), 4))
            f = env.var('f_region', 4)
            reg.set_region(f)
            cl.append(eq('RGNR.set_region', reg.value, P.cat(P.bits(V, 31, 4), _b(f, 4)), 32))
        if clsname == 'CPSR':
            reg = _new_reg(cls)
            reg.value = val
            cl.append(eq('CPSR.apsr', reg.apsr, V & BV(0xF80F0000, 32), 32))
        return cl
    return fn


def mk_abstract_register_item():
    """AbstractRegister.__getitem__/__setitem__ with symbolic bit index and slices"""
    def fn(env):
        from armulator.armv6.all_registers.cpsr import CPSR
        from armulator.armv6.configurations import configurations
        if not configurations.configs:
            configurations.configs = {'reset_values': {}}
        val = env.var('value', 32)
        V = _b(val, 32)
        i = env.var('i', 5)
        I = P.zx(_b(i, 5), 32)
        reg = CPSR()
        reg.value = val
        cl = [eq('reg[i]', reg[i], z3.LShR(V, I) & 1, 32)]
        f = env.var('f', 1)
        reg[i] = f
        cl.append(eq('reg[i] = f', reg.value, (V & ~(BV(1, 32) << I)) | (P.zx(_b(f, 1), 32) << I), 32))
        return cl
    return fn


SIZES_QUICK = [1, 2, 3, 4, 5, 6, 7, 8, 32]
SIZES_THOROUGH = [1, 2, 3, 4, 5, 6, 7, 8, 16, 32, 64]


def units(tier, seed=0):
    sizes = SIZES_QUICK if tier == 'quick' else SIZES_THOROUGH
    M = 'vf.c17'
    us = []
    for s in sizes:
        us.append(UnitSpec('add_with_carry/%d' % s, M, 'mk_add_with_carry', {'size': s}, summaries=False))
        us.append(UnitSpec('bits_misc/%d' % s, M, 'mk_bits_misc', {'size': s}, summaries=False))
        us.append(UnitSpec('lowest_set_bit/%d' % s, M, 'mk_lowest_set_bit', {'size': s}, summaries=False))
        us.append(UnitSpec('substring/%d' % s, M, 'mk_substring', {'size': s}, summaries=False, weight=3))
        us.append(UnitSpec('shift_prims/%d' % s, M, 'mk_shift_prims', {'size': s}, summaries=False, weight=2))
        us.append(UnitSpec('shift_zero/%d' % s, M, 'mk_shift_zero', {'size': s}, summaries=False))
    for n in ([1, 2, 3, 4, 5, 6, 7, 8, 16, 32] if tier == 'quick' else list(range(1, 33))):
        us.append(UnitSpec('sat/%d' % n, M, 'mk_sat', {'n': n}, summaries=False))
    for n in (1, 2, 4, 8):
        us.append(UnitSpec('big_endian_reverse/%d' % n, M, 'mk_ber', {'n': n}, summaries=False))
    us.append(UnitSpec('shift_c', M, 'mk_shift_c', {}, summaries=False, weight=3))
    us.append(UnitSpec('decode_shift', M, 'mk_decode_shift', {}, summaries=False))
    us.append(UnitSpec('expand_imm', M, 'mk_expand_imm', {}, summaries=False, weight=2))
    us.append(UnitSpec('abstract_register_item', M, 'mk_abstract_register_item', {}, summaries=False))
    import armulator.armv6.arm_v6  # noqa
    for cn in sorted(register_classes()):
        us.append(UnitSpec('fields/%s' % cn, M, 'mk_fields', {'clsname': cn}, summaries=False))
    return us


META = {
    'explanation': 'Bounded symbolic verification (solver-based checking of the real code): every function of '
                   'armulator/armv6/bits_ops.py and shift.py and every field property of every AbstractRegister '
                   'subclass is executed under z3-backed proxy integers; each explored path yields the obligation '
                   '"path condition AND NOT(result == architecture pseudocode term)" which must be unsat. Operand '
                   'values are fully symbolic at the stated widths; widths are enumerated.',
    'bounds': ['operand widths enumerated: quick {1..8,32}, thorough {1..8,16,32,64}; each width covers all operand '
               'values', 'shift amounts symbolic over 0..255', 'saturation widths 1..32 (thorough) over all 40-bit '
               'signed inputs', 'imm12 x carry and (type, imm5) fully symbolic',
               'register field views: all 2^32 register values x all in-range field values'],
    'outside': ['widths other than those enumerated', 'field values wider than the field (not in-range)'],
    'stubs': ['print -> event', 'int -> identity on symbolic ints', "bin(x).count('1') -> pop-count term"],
    'trusted_base': ['z3 5.1.0', 'symx proxy engine (self-tested)', 'spec/pseudo.py + spec/regs.py transcription of '
                                                                      'DDI 0406C'],
    'assumptions': ['arguments are non-negative integers of the stated width (the documented precondition)'],
}
