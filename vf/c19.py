"""C19: privilege confinement -- User-mode code cannot change privileged state."""
from symx import stubs
from vf import runner, c18

CLAIMS = ['host', 'priv']

# shards holding the instructions that can write privileged state (MSR/MRS, CPS/SETEND, SRS/RFE, LDM (user /
# exception return), SUBS PC,LR / ERET): always part of the quick tier
PRIV_SHARDS = {'A/10', 'A/12', 'A/14', 'A/16', 'A/32', 'A/36', 'A/1b', 'A/25', 'A/84', 'A/86', 'A/8d', 'A/8f', 'A/95', 'A/9d',
               'A/99', 'T16/b6', 'T32/138', 'T32/139', 'T32/13a', 'T32/13b', 'T32/13d', 'T32/13e', 'T32/13f',
               'T32/080', 'T32/081', 'T32/083', 'T32/098', 'T32/099', 'T32/09b'}
SCR_SYM = {'scr': 0x31, 'nsacr': 0x3FFF, 'cpacr': 0x0FFFFFFF}  # SCR.NS, FW, AW; coprocessor access controls


UNPRIV_QUICK = ['StrhtA1', 'LdrbtA1', 'StrbtT1', 'StrbtA1']  # (word forms LDRT/STRT: thorough tier -- 4 byte-wise translations per unaligned access, > 6 min per unit)
UNPRIV_ALL = ['LdrtA1', 'LdrtA2', 'StrtA1', 'StrtA2', 'LdrbtA1', 'LdrbtA2', 'StrbtA1', 'StrbtA2', 'LdrtT1', 'LdrbtT1',
              'StrtT1', 'StrbtT1', 'LdrhtA1', 'LdrhtA2', 'StrhtA1', 'StrhtA2', 'LdrsbtA1', 'LdrsbtA2', 'LdrshtA1',
              'LdrshtA2', 'LdrhtT1', 'LdrsbtT1', 'LdrshtT1', 'StrhtT1']


def unpriv_units(tier):
    """last clause of the property: LDRT/STRT & co executed in ANY mode are checked with User permissions -- the
    rows run through the real emulate_cycle with the MPU ON (symbolic region: enable, base, subregion-disable bits,
    AP; SCTLR.BR symbolic) against the one-step oracle whose memory helpers apply the B5 protection rules with
    ispriv = FALSE for these instructions (abort: no transfer, no write-back, Data Abort entry, DFSR/DFAR)"""
    from vf import famcheck, step
    T = list(step.FAMILIES)
    step.load_tables(T)
    from spec.isa import ISA
    rows = [r for r in (UNPRIV_QUICK if tier == 'quick' else UNPRIV_ALL) if r in ISA]
    fams = set(ISA[r].family for r in rows)
    us = famcheck.family_units(fams, [7], T, only=rows, tag='/unpriv-mpu/32B', mpu=1, mpu_rsize=[4])
    if tier == 'thorough':
        us += famcheck.family_units(fams, [7], T, only=rows, tag='/unpriv-mpu/256B-subregions', mpu=1, mpu_rsize=[7])
        us += famcheck.family_units(fams, [7], T, only=['LdrtA1', 'StrtA1', 'LdrbtA1', 'StrhtA1'], tag='/unpriv-mpu/2-regions', mpu=2,
                                    mpu_rsize=[9, 4])
    for u in us:
        u.max_seconds = 3000
    return us


def units(tier, seed=0):
    us = c18.shard_units(tier, CLAIMS, mode='usr', tag='/usr', seed=seed, always=PRIV_SHARDS, sym_sys=SCR_SYM)
    us += unpriv_units(tier)
    if tier == 'thorough':
        us += c18.shard_units('quick', CLAIMS, mode='usr', tag='/usr-nosec', sec=False, seed=seed, always=PRIV_SHARDS)
    return us


META = {
    'explanation': 'Bounded symbolic verification of the real ArmV6.emulate_cycle from User mode over the whole '
                   'instruction space (same sharding as C18: every decoder path, UNPREDICTABLE and exception-return '
                   'encodings included; all registers, flags, memory symbolic): afterwards either the processor is '
                   'still in User mode with A/I/F, every non-User banked register, every SPSR, ELR_hyp and EVERY '
                   'system/protection/translation register (generic snapshot of the Registers object) unchanged, or '
                   'it is in a privileged exception mode at that exception vector with SPSR.M = User. Unprivileged '
                   'loads/stores executed in privileged modes are stepped with the MPU enabled and compared with the '
                   'oracle that applies User permissions (and no background region) to their accesses.',
    'bounds': ['as C18 (shards; windowed register lists)', 'SCR.{NS,FW,AW} symbolic (secure and non-secure); quick: 72 sampled shards + the 29 shards holding the privileged-state instructions; thorough: all shards + a no-security-extension sample',
               'sweep: MPU off', 'unprivileged load/store rows (LDRT/STRT/LDRBT/STRBT/LDRHT/STRHT/LDRSBT/LDRSHT, ARM and '
               'Thumb) in every mode with the MPU ON: one symbolic region of 32 bytes (quick) / also 256 bytes with '
               'subregions and two nested regions (thorough), SCTLR.BR symbolic; the instruction fetch is assumed '
               'permitted'],
    'outside': ['multi-instruction programs as such (covered by induction: the post-state of the first disjunct is '
                'again a valid User-mode state)'],
    'stubs': stubs.STUBS_DOC,
    'trusted_base': ['z3', 'symx engine'],
    'assumptions': ['valid machine state with CPSR.M = User'],
}


def main(tier, seed):
    lem = runner.run_lemmas(('sec',))
    meta = dict(META)
    meta['checker_cmd'] = './check C19 %s' % tier
    us = units(tier, seed)
    meta['bounds'] = list(meta['bounds']) + ['change-directed selection on this run: %s' % (c18.SELECTION or 'no data files')]
    return runner.main_run('C19', tier, us, meta, lemma_results=lem)
