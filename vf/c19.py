"""C19: privilege confinement -- User-mode code cannot change privileged state."""
from symx import stubs
from vf import runner, c18

CLAIMS = ['host', 'priv']


def units(tier, seed=0):
    us = c18.shard_units(tier, CLAIMS, mode='usr', tag='/usr', seed=seed)
    if tier == 'thorough':
        us += c18.shard_units('quick', CLAIMS, mode='usr', tag='/usr-ns', set_sys={'scr': 1}, seed=seed)
    return us


META = {
    'explanation': 'Bounded symbolic verification of the real ArmV6.emulate_cycle from User mode over the whole '
                   'instruction space (same sharding as C18: every decoder path, UNPREDICTABLE and exception-return '
                   'encodings included; all registers, flags, memory symbolic): afterwards either the processor is '
                   'still in User mode with A/I/F, every non-User banked register, every SPSR, ELR_hyp and EVERY '
                   'system/protection/translation register (generic snapshot of the Registers object) unchanged, or '
                   'it is in a privileged exception mode at that exception vector with SPSR.M = User.',
    'bounds': ['as C18 (shards; windowed register lists)', 'secure state (quick); + non-secure state (thorough)',
               'MPU off; unprivileged load/store variants with the MPU on are covered by C14 (privilege passed to the '
               'permission check) and the LDRT/STRT rows of C02'],
    'outside': ['multi-instruction programs as such (covered by induction: the post-state of the first disjunct is '
                'again a valid User-mode state)'],
    'stubs': stubs.STUBS_DOC,
    'trusted_base': ['z3', 'symx engine'],
    'assumptions': ['valid machine state with CPSR.M = User'],
}


def main(tier, seed):
    lem = runner.run_lemmas(('sec',))
    meta = dict(META)
    meta['checker_cmd'] = './check C19 %s' % tier
    return runner.main_run('C19', tier, units(tier, seed), meta, lemma_results=lem)
