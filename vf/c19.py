"""C19: privilege confinement -- User-mode code cannot change privileged state."""
from symx import stubs
from vf import runner, c18

CLAIMS = ['host', 'priv']

# shards holding the instructions that can write privileged state (MSR/MRS, CPS/SETEND, SRS/RFE, LDM (user /
# exception return), SUBS PC,LR / ERET): always part of the quick tier
PRIV_SHARDS = {'A/10', 'A/12', 'A/14', 'A/16', 'A/32', 'A/36', 'A/1b', 'A/25', 'A/84', 'A/86', 'A/8d', 'A/8f', 'A/95', 'A/9d',
               'A/99', 'T16/b6', 'T32/138', 'T32/139', 'T32/13a', 'T32/13b', 'T32/13d', 'T32/13e', 'T32/13f',
               'T32/080', 'T32/081', 'T32/083', 'T32/098', 'T32/099', 'T32/09b'}
SCR_SYM = {'scr': 0x31, 'nsacr': 0x3FFF, 'cpacr': 0x0FFFFFFF}  # SCR.NS, FW, AW; coprocessor access controls


def units(tier, seed=0):
    us = c18.shard_units(tier, CLAIMS, mode='usr', tag='/usr', seed=seed, always=PRIV_SHARDS, sym_sys=SCR_SYM)
    if tier == 'thorough':
        us += c18.shard_units('quick', CLAIMS, mode='usr', tag='/usr-nosec', sec=False, seed=seed, always=PRIV_SHARDS)
    return us


META = {
    'explanation': 'Bounded symbolic verification of the real ArmV6.emulate_cycle from User mode over the whole '
                   'instruction space (same sharding as C18: every decoder path, UNPREDICTABLE and exception-return '
                   'encodings included; all registers, flags, memory symbolic): afterwards either the processor is '
                   'still in User mode with A/I/F, every non-User banked register, every SPSR, ELR_hyp and EVERY '
                   'system/protection/translation register (generic snapshot of the Registers object) unchanged, or '
                   'it is in a privileged exception mode at that exception vector with SPSR.M = User.',
    'bounds': ['as C18 (shards; windowed register lists)', 'SCR.{NS,FW,AW} symbolic (secure and non-secure); quick: 72 sampled shards + the 29 shards holding the privileged-state instructions; thorough: all shards + a no-security-extension sample',
               'MPU off; unprivileged load/store variants with the MPU on are covered by C14 (privilege passed to the '
               'permission check) and the LDRT/STRT rows of C02'],
    'outside': ['multi-instruction programs as such (covered by induction: the post-state of the first disjunct is '
                'again a valid User-mode state)'],
    'stubs': stubs.STUBS_DOC,
    'trusted_base': ['z3', 'symx engine'],
    'assumptions': ['valid machine state with CPSR.M = User'],
}


def main(tier, seed):
    lem = runner.run_lemmas(('sec',))
    meta = dict(META)
    meta['checker_cmd'] = './check C19 %s' % tier
    return runner.main_run('C19', tier, units(tier, seed), meta, lemma_results=lem)
