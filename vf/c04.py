"""C04: control flow -- PC advance, branch targets, link values, interworking, PC alignment."""
from symx import stubs
from vf import famcheck, runner, step

TABLES = ['isa_br']
BRANCHES = ['BA1', 'BT1', 'BT2', 'BT3', 'BT4', 'BlBlxImmediateA1', 'BlBlxImmediateA2', 'BlBlxImmediateT1',
            'BlBlxImmediateT2', 'BlxRegisterA1', 'BlxRegisterT1', 'BxA1', 'BxT1', 'BxjA1', 'BxjT1', 'CbzT1',
            'TbbTbhT1']


def units(tier, seed=0):
    archs = [6, 7] if tier == 'quick' else [4, 5, 6, 7]
    us = famcheck.family_units({'br_misc'}, archs, TABLES, only=BRANCHES)
    # PC reads (instr + 8 / + 4) and sequential advance / ALU and load writes to PC are asserted by every row of
    # the other functional tables (C01, C02, C03, C09, C12); the PC-read lemma is part of the summary lemmas
    return us


META = {
    'explanation': 'Bounded symbolic verification of the real code: every branch encoding row (B A1/T1-T4, BL/BLX '
                   'immediate, BLX/BX/BXJ register, CBZ/CBNZ, TBB/TBH) is stepped through the real emulate_cycle with '
                   'the whole offset field, the instruction address (anywhere in 2^32), registers, flags, IT state '
                   'and mode symbolic; target (sign-extended offset from PC+8/PC+4, Align(PC,4) where specified), LR '
                   '(bit 0 from Thumb), instruction-set selection and the frame are compared with the A8.8 '
                   'pseudocode. Sequential PC advance, PC-relative reads and PC alignment are additionally asserted '
                   'by every row of the other functional checks (the post-state PC is part of each comparison).',
    'bounds': ['architecture versions enumerated (quick 6,7; thorough 4-7)', 'UNPREDICTABLE branch forms (e.g. inside '
               'an IT block but not last) excluded'],
    'outside': ['Jazelle state (BXJ behaves as BX; JMCR.JE = 1 excluded)'],
    'stubs': stubs.STUBS_DOC,
    'trusted_base': ['z3', 'symx engine', 'oracle rows spec/isa_br.py'],
    'assumptions': ['valid machine state'],
}


def main(tier, seed):
    lem = runner.run_lemmas(('sec',))
    meta = dict(META)
    meta['checker_cmd'] = './check C04 %s' % tier
    return runner.main_run('C04', tier, units(tier, seed), meta, lemma_results=lem)
