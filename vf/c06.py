"""C06: ARM decode -- every 32-bit word maps to the architectural instruction class."""
from symx import stubs
from vf import runner, step, famcheck
from vf.runner import UnitSpec

ISET = 'A'
PID = 'C06'


def shards(tier):
    return [('A/%02x' % op, [(27, 20, op)]) for op in range(256)]


def units(tier, seed=0):
    T = list(step.FAMILIES)
    us = []
    for name, pins in shards(tier):
        us.append(UnitSpec('decode/' + name, 'vf.decode', 'mk_decode',
                           dict(iset=name.split('/')[0], pins=[list(p) for p in pins], tables=T), max_seconds=1800))
    # operand extraction / UNDEFINED outcomes: every table row of this instruction set through the real
    # emulate_cycle with the instruction word fully symbolic; quick: a fixed register file of pairwise distinct
    # values (cheap: no data-dependent paths); thorough: registers symbolic as in the functional checks
    step.load_tables(T)
    from spec.isa import ISA
    rows = [n for n, e in ISA.items() if e.iset in ('A',)]
    fams = set(ISA[n].family for n in rows)
    if tier == 'quick':
        light = [n for n in rows if ISA[n].family not in ('mul', 'blk')]  # (multiply rows: thorough tier; block
        # transfers: windowed register lists below)
        us += famcheck.family_units(fams, [7], T, only=light, tag='/operands', reg_values='distinct')
    else:
        us += famcheck.family_units(fams, [7], T, only=[n for n in rows if ISA[n].family != 'blk'], tag='/operands')
    from spec import isa_blk
    for n in rows:
        if ISA[n].family == 'blk':
            for uname, opts in isa_blk.units(n, 7, 'std'):
                label = uname.rsplit('/', 1)[1]
                if tier == 'quick' and label not in ('LO', 'HI', 'SYM', 'SYMRN', 'ALL'):
                    continue
                opts = dict(opts, tables=T)
                if tier == 'quick':
                    opts['reg_values'] = 'distinct'
                from vf import c03
                for suf, o2 in c03.split_window(label, opts):
                    us.append(UnitSpec(uname + '/operands' + suf, 'vf.step', 'mk_step', o2, max_seconds=1800, weight=3,
                                       allow_vacuous=bool(suf)))
    return us


META = {
    'explanation': 'Bounded symbolic verification of the real ARM decoder tree (arm_instruction_set.decode_instruction '
                   'and its 22 sub-decoders): the 2^32 words are split into 256 shards on bits 27:20, all other bits '
                   'symbolic; every decoder path yields its outcome (class / None / Undefined / NotImplementedError) '
                   'and the solver shows that no word on the path is, by encoding diagram and SEE-exclusions of the '
                   'instruction tables (spec/isa_*.py), a defined word of a DIFFERENT instruction row -- i.e. class '
                   'selection is right for every word the tables define; the converse (each row word selects the row '
                   'class, operands extracted from the right bits -- witnessed by post-state equality for ALL field '
                   'values) is asserted by the functional checks C01-C04, C09, C12. The path conditions mention only '
                   'the instruction word (state independence).',
    'bounds': ['exhaustive over the 2^32 words within the table coverage (rows listed in the evidence of the '
               'functional checks); words in no table row are only required to decode without host error'],
    'bounds_rows': ['quick: operand rows run with a fixed register file of pairwise distinct values (instruction word, flags, IT state, memory symbolic); thorough: registers symbolic'],
    'outside': ['VFP / Advanced SIMD / banked-register MRS-MSR spaces (classified as unimplemented)',
                'UNPREDICTABLE forms'],
    'stubs': stubs.STUBS_DOC,
    'trusted_base': ['z3', 'symx engine', 'encoding diagrams in spec/isa_*.py'],
    'assumptions': [],
}


def main(tier, seed):
    meta = dict(META)
    meta['checker_cmd'] = './check %s %s' % (PID, tier)
    lem = runner.run_lemmas(('sec',))
    return runner.main_run(PID, tier, units(tier, seed), meta, lemma_results=lem)
