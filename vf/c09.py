"""C09: multiply, divide, saturating, packed-SIMD, extend, bit-field, reverse instructions are bit-exact."""
import os

from symx import stubs
from vf import famcheck, runner, step

WANT = ['isa_mul', 'isa_simd', 'isa_sat']
FAMS = {'mul', 'simd', 'sat_ext'}


def tables():
    have = step.available_tables()
    return [t for t in WANT if t in have and t in step.FAMILIES]


def units(tier, seed=0):
    T = tables()
    if tier == 'quick':
        return famcheck.family_units(FAMS, [7], T)
    return famcheck.family_units(FAMS, [6, 7], T) + famcheck.family_units(FAMS, [7], T, sec=False, tag='/nosec')


META = {
    'explanation': 'Bounded symbolic verification of the real code: every encoding row of the multiply/divide, '
                   'parallel add/subtract (+SEL, USAD8/USADA8), saturating, extend, bit-field, PKH, REV*, RBIT, CLZ '
                   'families is stepped through the real emulate_cycle with all fields, all registers, NZCVQ/GE/IT '
                   'and the mode symbolic at full width; the solver must show the whole post-state (Rd/RdLo/RdHi, '
                   'N/Z from the truncated result, sticky Q, GE lanes, frame) equals the A8.8 operation pseudocode.',
    'bounds': ['architecture versions enumerated (quick 7; thorough 6,7 and 7 without security extensions)',
               'full 32/64-bit operands; symbolic x symbolic products use exact bit-vector multiplication',
               'UNPREDICTABLE inputs excluded'],
    'outside': ['UNPREDICTABLE encodings', 'integer-divide trapping (ARMv7-R SCTLR.DZ)'],
    'stubs': stubs.STUBS_DOC + ["a / b then int() (sdiv.py, udiv.py) -> exact rational then truncation toward zero"],
    'trusted_base': ['z3', 'symx engine', 'oracle rows spec/isa_mul.py, isa_simd.py, isa_sat.py'],
    'assumptions': ['valid machine state', 'float division of 32-bit integers followed by int() truncates exactly '
                                           '(|a|,|b| < 2^32: quotient error below 2^-21 relative, see DESIGN)'],
}


def main(tier, seed):
    lem = runner.run_lemmas(('sec', 'nosec') if tier == 'thorough' else ('sec',))
    meta = dict(META)
    meta['checker_cmd'] = './check C09 %s' % tier
    meta['explanation'] += ' Tables in this run: %s.' % ', '.join(tables())
    return runner.main_run('C09', tier, units(tier, seed), meta, lemma_results=lem)
