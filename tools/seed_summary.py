#!/usr/bin/env python3
"""print one line per evaluated seeded change (reads seeded/*/meta.json written by seed_eval.py)"""
import glob, json, os, sys
V = os.path.dirname(os.path.dirname(os.path.abspath(__file__)))
for f in sorted(glob.glob(V + '/seeded/*/meta.json')):
    d = json.load(open(f))
    ev = d.get('evaluation', d)
    ch = ev.get('checks', {})
    cells = []
    for p, c in sorted(ch.items()):
        v = c.get('violations')
        n = v if isinstance(v, int) else len(v or [])
        cells.append('%s:rc=%s,viol=%s,%ss' % (p, c.get('exit'), n, c.get('wall_s')))
    print(os.path.basename(os.path.dirname(f)), 'confirmed=%s' % ev.get('confirmed'), ' '.join(cells))
