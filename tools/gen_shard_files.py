#!/usr/bin/env python3
"""Regenerates vf/shard_files.json (shard -> repository modules executed while it was explored) and
vf/repo_hashes.json (sha1 of the repository sources) from a C18 thorough run on the current /repo tree.
usage: tools/gen_shard_files.py [dump.json]   (without argument: runs ./check C18 thorough with VERIF_DUMP_FUNCS set)"""
import json
import os
import subprocess
import sys
import tempfile

HERE = os.path.dirname(os.path.dirname(os.path.abspath(__file__)))
sys.path[:0] = [HERE]


def main():
    if len(sys.argv) > 1:
        dump = sys.argv[1]
    else:
        dump = os.path.join(tempfile.mkdtemp(prefix='shardfiles-'), 'dump.json')
        env = dict(os.environ, VERIF_DUMP_FUNCS=dump, VERIF_EVIDENCE_DIR=os.path.dirname(dump))
        rc = subprocess.call(['./check', 'C18', 'thorough'], cwd=HERE, env=env)
        if rc != 0:
            print('C18 thorough exited %d: data files not regenerated' % rc)
            return 1
    d = json.load(open(dump))
    out = {}
    for unit, mods in d.items():
        if not unit.startswith('sweep/'):
            continue
        name = unit[len('sweep/'):]
        if name.endswith(('/v6', '/nosec', '/sctlr', '/usr', '/usr-nosec')):
            continue
        out[name] = sorted(m for m in mods if m.startswith('armv6.opcodes'))
    json.dump(out, open(os.path.join(HERE, 'vf', 'shard_files.json'), 'w'), indent=0, sort_keys=True)
    from vf import changed
    json.dump(changed.tree_hashes('/repo'), open(os.path.join(HERE, 'vf', 'repo_hashes.json'), 'w'), indent=0,
              sort_keys=True)
    print('%d shards, %d modules' % (len(out), len(set(m for v in out.values() for m in v))))
    return 0


if __name__ == '__main__':
    sys.exit(main())
