#!/usr/bin/env python3
"""Regenerates vf/shard_files.json (instruction-space shard -> repository opcode modules reachable from it) and
vf/repo_hashes.json (sha1 of the repository sources) -- the data of the change-directed shard selection (vf/changed.py).

The map comes from the decoder-path units of C06/C07, which explore EVERY shard in the quick tier and record, per
shard, the classes the real decoder returns on its paths: evidence/C06.json and evidence/C07.json (units decode/<shard>,
outcomes = class names).  A class contributes its own module and the modules of its base classes (the abstract
opcode).  Run after ./check C06 quick and ./check C07 quick passed on the tree to be recorded."""
import importlib
import inspect
import json
import os
import pkgutil
import sys

HERE = os.path.dirname(os.path.dirname(os.path.abspath(__file__)))
sys.path[:0] = ['/repo', HERE]


def class_modules():
    import armulator.armv6.opcodes.concrete as conc
    out = {}
    for mi in pkgutil.walk_packages(conc.__path__, conc.__name__ + '.'):
        try:
            mod = importlib.import_module(mi.name)
        except Exception:
            continue
        for name, cls in vars(mod).items():
            if inspect.isclass(cls) and cls.__module__ == mod.__name__:
                mods = set()
                for b in cls.__mro__:
                    m = getattr(b, '__module__', '')
                    if m.startswith('armulator.armv6.opcodes.'):
                        mods.add(m[len('armulator.'):])
                out[name] = sorted(mods)
    return out


def main():
    cm = class_modules()
    out = {}
    for pid in ('C06', 'C07'):
        e = json.load(open(os.path.join(HERE, 'evidence', pid + '.json')))
        if e.get('violations'):
            print('%s evidence reports violations: not regenerating' % pid)
            return 1
        for u in e['coverage']['units']:
            if not u['name'].startswith('decode/'):
                continue
            shard = u['name'][len('decode/'):]
            mods = set()
            for oc in u.get('outcomes', {}):
                mods.update(cm.get(oc, []))
            out[shard] = sorted(mods)
    json.dump(out, open(os.path.join(HERE, 'vf', 'shard_files.json'), 'w'), indent=0, sort_keys=True)
    from vf import changed
    json.dump(changed.tree_hashes('/repo'), open(os.path.join(HERE, 'vf', 'repo_hashes.json'), 'w'), indent=0,
              sort_keys=True)
    print('%d shards, %d modules' % (len(out), len(set(m for v in out.values() for m in v))))
    return 0


if __name__ == '__main__':
    sys.exit(main())
