#!/usr/bin/env python3
"""Development aid: run the units of a property module whose name matches a regular expression.
usage: PYTHONPATH=/repo:/verif python3-vt tools/try_units.py c18 quick 'sweep/A/e' ['{"sym_sys": {...}}']
(the optional JSON is merged into each unit's argument dictionary)"""
import importlib
import json
import os
import re
import sys
import time

sys.path[:0] = [os.environ.get('VERIF_REPO', '/repo'), '/verif']
from vf import runner  # noqa


def main():
    mod = importlib.import_module('vf.' + sys.argv[1])
    tier = sys.argv[2]
    rx = re.compile(sys.argv[3])
    extra = json.loads(sys.argv[4]) if len(sys.argv) > 4 else {}
    us = [u for u in mod.units(tier) if rx.search(u.name)]
    for u in us:
        u.kwargs.update(extra)
    print('%d units' % len(us))
    t = time.time()
    lem = runner.run_lemmas(('sec',))
    res = runner.run_specs(us, {k: v['ok'] for k, v in lem.items()})
    for d in sorted(res, key=lambda d: d['name']):
        print(d['name'], 'paths', d['paths'], 'aborted', d['aborted'], 'obl', d['obligations'], 'dis', d['discharged'],
              'q', d['queries'], 'solver', d['solver_s'], 'wall', round(d['wall_s'], 1), d['outcomes'])
        for i, f in enumerate(d['failures'][:3]):
            path = runner.write_replay('TRY', d['spec'], f, i)
            rep, text = runner.replay_file(path)
            brief = {k: v for k, v in f['inputs'].items() if not k.startswith(('R_', 'spsr_', 'elr_', 'mem'))}
            print('   FAIL reproduced=%s' % rep, f['claims'][:6], json.dumps(brief)[:500])
            print('        ', text[-400:])
        for i in d['inconclusive'][:3]:
            print('   INC', str(i)[:1500])
        if d.get('harness_error'):
            print(d['harness_error'][-2500:])
    print('total %.1fs' % (time.time() - t))


if __name__ == '__main__':
    main()
