#!/usr/bin/env python3
"""Regenerates MANIFEST.json from the table below (keeps it schema-valid at all times)."""
import json
import os

HERE = os.path.dirname(os.path.dirname(os.path.abspath(__file__)))
PROPS = [json.loads(l)['id'] for l in open(os.path.join(HERE, 'properties.jsonl'))]

TECH = 'solver-based bounded symbolic execution of the real Python code (z3 proxy integers, per-path unsat obligations, counterexample replay)'

CLAIMED = {
    'C17': dict(
        text='Every helper of bits_ops.py/shift.py and every register field view is executed symbolically on the real '
             'code; per path the solver shows result == ARM pseudocode term for ALL operand values at the enumerated '
             'widths (quick 1..8,32; thorough +16,64), all shift amounts 0..255, all imm12 x carry. Bounded by the '
             'enumerated widths only; counterexamples are replayed on the unmodified code.',
        ref='DESIGN.md 6/C17',
        note='trusts z3, the symx proxy engine (self-tested against Python ints), and the hand transcription of the '
             'ARM ARM pseudocode / register field tables in spec/'),
}

NOT_BUILT = 'check not built yet (framework under construction; see DESIGN.md Appendix A)'


def main():
    checks = []
    for pid in PROPS:
        if pid in CLAIMED:
            c = CLAIMED[pid]
            checks.append({
                'property_id': pid,
                'quick_cmd': './check %s quick' % pid,
                'thorough_cmd': './check %s thorough' % pid,
                'evidence_file': 'evidence/%s.json' % pid,
                'replay_cmd_template': './check replay {path}',
                'engine': 'symx',
                'level_claimed': {'category': 'other', 'text': c['text'], 'design_ref': c['ref']},
                'level_note': c['note'],
                'technique': TECH,
            })
    m = {
        'version': 1,
        'setup_cmd': 'python3-vt -c "import z3" && PYTHONPATH=/repo:. python3-vt -m symx.selftest 200',
        'hooks': {'guard': 'ARMULATOR_VERIF',
                  'enable': 'no hooks: the engine rebinds names at run time in its own process; /repo is used as is',
                  'baseline_off_cmd': 'cd /repo && /venv/bin/python -m pytest -ra -q -p no:cacheprovider --timeout=900 '
                                      '--continue-on-collection-errors',
                  'source_commits': [], 'add_only': True},
        'engines': [{'name': 'symx', 'path': 'symx/', 'serves_properties': sorted(CLAIMED),
                     'kind_free_text': 'purpose-made dynamic symbolic executor for Python: z3 bit-vector proxy ints, '
                                       'DFS by re-execution, incremental solver, replay of models on the real code'}],
        'checks': checks,
        'not_applicable': [{'property_id': p, 'reason': NOT_BUILT} for p in PROPS if p not in CLAIMED],
        'notes': 'exit codes: 0 held / 1 reproduced violation / 2 inconclusive or harness error (nothing claimed)',
    }
    with open(os.path.join(HERE, 'MANIFEST.json'), 'w') as f:
        json.dump(m, f, indent=1)


if __name__ == '__main__':
    main()
