#!/usr/bin/env python3
"""Regenerates MANIFEST.json from the table below (keeps it schema-valid at all times)."""
import json
import os

HERE = os.path.dirname(os.path.dirname(os.path.abspath(__file__)))
PROPS = [json.loads(l)['id'] for l in open(os.path.join(HERE, 'properties.jsonl'))]

TECH = 'solver-based bounded symbolic execution of the real Python code (z3 proxy integers, per-path unsat obligations, counterexample replay)'

CLAIMED = {
    'C17': dict(
        text='Every helper of bits_ops.py/shift.py and every register field view is executed symbolically on the real '
             'code; per path the solver shows result == ARM pseudocode term for ALL operand values at the enumerated '
             'widths (quick 1..8,32; thorough +16,64), all shift amounts 0..255, all imm12 x carry. Bounded by the '
             'enumerated widths only; counterexamples are replayed on the unmodified code.',
        ref='DESIGN.md 6/C17',
        note='trusts z3, the symx proxy engine (self-tested against Python ints), and the hand transcription of the '
             'ARM ARM pseudocode / register field tables in spec/'),
    'C01': dict(
        text='Every data-processing encoding row (153 rows: ARM A1/A2, Thumb T1-T4) is stepped symbolically through the '
             'real emulate_cycle with all instruction fields, all 34 physical registers, NZCVQ/GE/IT/AIF and the mode as '
             'solver variables; per path the solver shows the whole post-state (every bank, CPSR, SPSRs, all system '
             'registers, memory) equals the ARM ARM operation pseudocode. Bounded only by enumerated architecture '
             'versions (quick 6,7; thorough 4-7) and by excluding architecturally UNPREDICTABLE inputs.',
        ref='DESIGN.md 6/C01',
        note='trusts z3, the symx engine, the oracle transcription (spec/isa_dp.py, spec/state.py); summaries of leaf '
             'helpers are re-proved against the real code on every run'),
    'C10': dict(
        text='Banking: get/set/get_rmode/set_rmode/get_spsr/set_spsr run from an arbitrary symbolic register file with '
             'symbolic register number and mode and are compared with the B1.3.2 bank table (one inductive step = all '
             'histories). Range: every register/SPSR/PC value in [0,2^32) after every exception entry and after the '
             'instruction rows prone to unwrapped arithmetic (the functional tables assert it for all their rows).',
        ref='DESIGN.md 6/C10',
        note='trusts z3, symx, the bank-table transcription; configurations enumerated (sec, nosec, sec+virt)'),
    'C11': dict(
        text='Every exception-entry function (undef, svc, smc, data abort, irq, fiq, hyp trap, reset) is executed from an '
             'arbitrary symbolic state (whole CPSR, PC, SCTLR.{V,VE,TE,EE,NMFI}, all SCR bits, HCR routing bits, '
             'HSCTLR, vector base registers) and the full post-state is compared with the B1.9 pseudocode incl. frame.',
        ref='DESIGN.md 6/C11',
        note='trusts z3, symx, spec/state.py; external/asynchronous aborts are constant-False stubs in the repository'),
    'C13': dict(
        text='MemA/MemU get/set (priv/unpriv), fetch: address, value, E, SCTLR.A/U, mode and the memory array symbolic; '
             'value, footprint (pointwise extensional memory equality), faults with DFSR/DFAR, round trip and fetch '
             'endianness decided by the solver for sizes 1,2,4,8 and arch 5,6,7.',
        ref='DESIGN.md 6/C13',
        note='trusts z3, symx, the MemA/MemU transcription; MPU/MMU off'),
    'C16': dict(
        text='One hub operation from an arbitrary hub state: up to 3 controllers with symbolic beginnings and contents '
             '(adjacent/gapped/overlapping), symbolic address and value, sizes 1,2,4,8: result, exact footprint, '
             'first-match priority, unmapped=0, no host error, device length invariant (inductive over histories).',
        ref='DESIGN.md 6/C16',
        note='trusts z3, symx and the models of struct.pack/unpack and bytearray slicing; device sizes enumerated'),
}

NOT_BUILT = 'check not built yet (framework under construction; see DESIGN.md Appendix A)'


def main():
    checks = []
    for pid in PROPS:
        if pid in CLAIMED:
            c = CLAIMED[pid]
            checks.append({
                'property_id': pid,
                'quick_cmd': './check %s quick' % pid,
                'thorough_cmd': './check %s thorough' % pid,
                'evidence_file': 'evidence/%s.json' % pid,
                'replay_cmd_template': './check replay {path}',
                'engine': 'symx',
                'level_claimed': {'category': 'other', 'text': c['text'], 'design_ref': c['ref']},
                'level_note': c['note'],
                'technique': TECH,
            })
    m = {
        'version': 1,
        'setup_cmd': 'python3-vt -c "import z3" && PYTHONPATH=/repo:. python3-vt -m symx.selftest 200',
        'hooks': {'guard': 'ARMULATOR_VERIF',
                  'enable': 'no hooks: the engine rebinds names at run time in its own process; /repo is used as is',
                  'baseline_off_cmd': 'cd /repo && /venv/bin/python -m pytest -ra -q -p no:cacheprovider --timeout=900 '
                                      '--continue-on-collection-errors',
                  'source_commits': [], 'add_only': True},
        'engines': [{'name': 'symx', 'path': 'symx/', 'serves_properties': sorted(CLAIMED),
                     'kind_free_text': 'purpose-made dynamic symbolic executor for Python: z3 bit-vector proxy ints, '
                                       'DFS by re-execution, incremental solver, replay of models on the real code'}],
        'checks': checks,
        'not_applicable': [{'property_id': p, 'reason': NOT_BUILT} for p in PROPS if p not in CLAIMED],
        'notes': 'exit codes: 0 held / 1 reproduced violation / 2 inconclusive or harness error (nothing claimed)',
    }
    with open(os.path.join(HERE, 'MANIFEST.json'), 'w') as f:
        json.dump(m, f, indent=1)


if __name__ == '__main__':
    main()
