#!/usr/bin/env python3
"""Regenerates MANIFEST.json from the table below (keeps it schema-valid at all times)."""
import json
import os

HERE = os.path.dirname(os.path.dirname(os.path.abspath(__file__)))
PROPS = [json.loads(l)['id'] for l in open(os.path.join(HERE, 'properties.jsonl'))]

TECH = 'solver-based bounded symbolic execution of the real Python code (z3 proxy integers, per-path unsat obligations, counterexample replay)'

CLAIMED = {
    'C17': dict(
        text='Every helper of bits_ops.py/shift.py and every register field view is executed symbolically on the real '
             'code; per path the solver shows result == ARM pseudocode term for ALL operand values at the enumerated '
             'widths (quick 1..8,32; thorough +16,64), all shift amounts 0..255, all imm12 x carry. Bounded by the '
             'enumerated widths only; counterexamples are replayed on the unmodified code.',
        ref='DESIGN.md 6/C17',
        note='trusts z3, the symx proxy engine (self-tested against Python ints), and the hand transcription of the '
             'ARM ARM pseudocode / register field tables in spec/'),
    'C01': dict(
        text='Every data-processing encoding row (153 rows: ARM A1/A2, Thumb T1-T4) is stepped symbolically through the '
             'real emulate_cycle with all instruction fields, all 34 physical registers, NZCVQ/GE/IT/AIF and the mode as '
             'solver variables; per path the solver shows the whole post-state (every bank, CPSR, SPSRs, all system '
             'registers, memory) equals the ARM ARM operation pseudocode. Bounded only by enumerated architecture '
             'versions (quick: 7 for every row, 6 for the anchor and PC-writing ARM rows; thorough 4-7) and by excluding '
             'architecturally UNPREDICTABLE inputs; history independence on 7 concrete instructions whose operands read '
             'the flags / IT state.',
        ref='DESIGN.md 6/C01',
        note='trusts z3, the symx engine, the oracle transcription (spec/isa_dp.py, spec/state.py); summaries of leaf '
             'helpers are re-proved against the real code on every run'),
    'C10': dict(
        text='Banking: get/set/get_rmode/set_rmode/get_spsr/set_spsr run from an arbitrary symbolic register file with '
             'symbolic register number and mode and are compared with the B1.3.2 bank table (one inductive step = all '
             'histories). Range: every register/SPSR/PC value in [0,2^32) after every exception entry and after the '
             'instruction rows prone to unwrapped arithmetic (the functional tables assert it for all their rows). '
             'Instructions that name another bank explicitly (LDM/STM user registers, SRS, RFE, SPSR moves, CPS, '
             'exception return) stepped from an arbitrary mode with all 34 physical registers compared.',
        ref='DESIGN.md 6/C10',
        note='trusts z3, symx, the bank-table transcription; configurations enumerated (sec, nosec, sec+virt)'),
    'C11': dict(
        text='Every exception-entry function (undef, svc, smc, data abort, irq, fiq, hyp trap, reset) is executed from an '
             'arbitrary symbolic state (whole CPSR incl. J in Thumb state = ThumbEE, PC, SCTLR.{V,VE,TE,EE,NMFI}, all SCR bits, HCR routing bits, '
             'HSCTLR, vector base registers) and the full post-state is compared with the B1.9 pseudocode incl. frame; '
             'dispatch through the real emulate_cycle by SVC/SMC/UDF/BKPT/alignment-faulting LDREX/LDRD rows in ARM and '
             'Thumb state with arbitrary ITSTATE.',
        ref='DESIGN.md 6/C11',
        note='trusts z3, symx, spec/state.py; external/asynchronous aborts are constant-False stubs in the repository'),
    'C13': dict(
        text='MemA/MemU get/set (priv/unpriv), fetch: address, value, E, SCTLR.A/U, mode and the memory array symbolic; '
             'value, footprint (pointwise extensional memory equality), faults with DFSR/DFAR, round trip and fetch '
             'endianness decided by the solver for sizes 1,2,4,8 and arch 5,6,7.',
        ref='DESIGN.md 6/C13',
        note='trusts z3, symx, the MemA/MemU transcription; MPU/MMU off'),
    'C16': dict(
        text='One hub operation from an arbitrary hub state: up to 3 controllers with symbolic beginnings and contents '
             '(adjacent/gapped/overlapping), symbolic address and value, sizes 1,2,4,8: result, exact footprint, '
             'first-match priority, unmapped=0, no host error, device length invariant (inductive over histories); '
             'two accesses in a row at independent symbolic addresses, with controllers un-registered or re-ordered in '
             'between: the second access depends on the controller list and device bytes only, not on the history.',
        ref='DESIGN.md 6/C16',
        note='trusts z3, symx and the models of struct.pack/unpack and bytearray slicing; device sizes enumerated'),
    'C02': dict(
        text='Every LDR/STR-family row (164 rows: byte/half/word/double, extending, literal, register, unprivileged, '
             'exclusive; ARM + Thumb) stepped through the real emulate_cycle with P/U/W, registers, immediates, every '
             'base address incl. wrap-around, alignment, memory array, flags and mode symbolic; address, bytes moved '
             '(pointwise extensional memory equality), destination, write-back, load-to-PC, alignment aborts and frame '
             'equal the A8.8 pseudocode. quick: arch 7 + anchors on arch 6 with SCTLR.A/U symbolic; thorough: all rows, '
             'arch 6/7, SCTLR.A/U and CPSR.E symbolic.',
        ref='DESIGN.md 6/C02', note='MPU off; exclusive monitors are constant-False stubs in the repository'),
    'C03': dict(
        text='Every block-transfer / stack row (33 rows: LDM/STM x4 modes, PUSH/POP, user-bank and exception-return '
             'forms, SRS, RFE; ARM + Thumb) stepped through the real emulate_cycle with base value, W, mode/bank, '
             'register values and memory symbolic and the register list symbolic on windows of list bits; transferred '
             '(address, register) pairs, final base / banked SP, PC load, CPSR restore and frame vs the pseudocode; '
             'PUSH;POP of the same list over two real steps restores all registers and SP.',
        ref='DESIGN.md 6/C03', note='register lists windowed (<= 8 symbolic bits at once; every bit symbolic in some '
                                    'window); known finding F033 (PUSH.W unaligned SP) excluded by region'),
    'C04': dict(
        text='Every branch row (B, BL/BLX, BX, BXJ, CBZ, TBB/TBH) with the whole offset field, the instruction address '
             'and all state symbolic: target, LR, instruction-set selection, frame; sequential advance / PC reads / '
             'alignment are part of every other functional row and of the C18 sweep (align claim).',
        ref='DESIGN.md 6/C04', note='known finding F013 (CBZ offset scaling) excluded by region, still reported'),
    'C05': dict(
        text='condition_passed/current_cond vs ConditionHolds for all cond x NZCV (ARM field, Thumb branch fields, IT '
             'state) by the solver; and for EVERY row of every table: failing condition => nothing changes but PC+len '
             'and the IT advance (oracle-free frame claim through the real emulate_cycle).',
        ref='DESIGN.md 6/C05', note='conditional UNDEFINED with failing condition is IMPLEMENTATION DEFINED: excluded'),
    'C06': dict(
        text='The real ARM decoder tree on a symbolic word, 256 shards covering all 2^32 words: per decoder path no word '
             'is a defined word of a different table row; path conditions mention only the word. Converse + operands: '
             'functional rows.',
        ref='DESIGN.md 6/C06', note='exhaustive within table coverage (all 603 repository classes have rows once C03/C09 '
                                    'tables are complete); VFP/SIMD spaces only classified as unimplemented'),
    'C07': dict(
        text='The real Thumb decoder trees on symbolic words: all 2^16 16-bit encodings with symbolic IT state and all '
             '2^32 32-bit encodings (sharded): per path no defined word of a different row; dependence only on word + IT '
             'state; fetch length decision from hw1[15:11]; operand rows (every Thumb row through emulate_cycle); history '
             'independence of decode (same encoding first run from unrelated flags / IT state).',
        ref='DESIGN.md 6/C07', note='as C06; known finding F041 (ENTERX/LEAVEX decoded although ThumbEE is not '
                                    'implemented) excluded by region, still reported'),
    'C08': dict(
        text='Multi-step symbolic programs IT + 1..4 menu instructions (+ branch last / SVC / UDF at each position) '
             'through repeated real emulate_cycle calls with firstcond, mask, NZCV, registers symbolic; CPSR/ITSTATE and '
             'PC compared with the composed oracle after every step, direct IT statements (ITSTATE = firstcond:mask, '
             'flags untouched by 16-bit DP in block, empty after last slot, cleared on exception).',
        ref='DESIGN.md 6/C08', note='programs from an 11-instruction menu (incl. MSR APSR mid-block and SVC with a '
                                    'returning handler), one IT block; quick 50 shapes, thorough ~2300'),
    'C09': dict(
        text='Every row of the saturating / extend / bit-field / reverse / PKH / CLZ and parallel add-sub / SEL / USAD '
             'tables (and the multiply/divide table when present) stepped symbolically at full width incl. prior Q/GE; '
             'whole post-state equals the pseudocode.',
        ref='DESIGN.md 6/C09', note='known finding F009 (BFI with lsb != 0) excluded by region, still reported; quick tier: '
                                    'the solver-bound rows (the multiply family, USAD8/USADA8, SBFX/UBFX/BFI/BFC) with register '
                                    'numbers pinned (DESIGN 14.9), everything symbolic in the thorough tier'),
    'C12': dict(
        text='cpsr_write_by_instr / spsr_write_by_instr with value, byte mask, whole CPSR, SCR.{NS,AW,FW}, NMFI, RFR '
             'symbolic vs B1.3.3 + direct statements; every system-family row (MRS/MSR/CPS/SETEND/SUBS PC,LR/ERET, '
             'coprocessor gating with CPACR/NSACR symbolic -- also with the Virtualization Extensions in every mode incl. '
             'Hyp, HCPTR symbolic -- barriers, preloads) and hint / exception-generating rows through emulate_cycle.',
        ref='DESIGN.md 6/C12', note='known finding F014 (MRS CPSR in privileged modes) excluded by region, still reported'),
    'C14': dict(
        text='translate_address_p/check_permission/data_abort with k (<=2 quick, <=3 thorough) fully symbolic MPU '
             'regions (enable, size, base, subregions, AP), address, SCTLR.{M,BR}; privilege x direction case-split; '
             'allow / Background / Permission fault, DFSR.{FS,WnR}, DFAR, frame vs the B5 oracle; the full region file '
             '(DRegion = 12, symbolic regions at indices incl. 0 and 11); unprivileged accesses made in privileged '
             'modes; and instruction level: loads/stores stepped through the real emulate_cycle with the MPU on '
             '(denied access: no transfer, no write-back, Data Abort entry, DFSR/DFAR).',
        ref='DESIGN.md 6/C14', note='>3 simultaneously symbolic regions outside; instruction-level rows with one '
                                    'symbolic region, instruction fetch assumed permitted'),
    'C15': dict(
        text='translate_address_v with the page tables = the symbolic memory array, TTBR0/1, TTBCR, DACR, SCTLR.{AFE,EE}, '
             'FCSE PID, PRRR/NMRR, address symbolic: PA(40 bit), NS, memory type/attributes or fault with DFSR.{FS,'
             'domain,WnR}/DFAR vs the B3 short-descriptor oracle; MMU off flat. Long-descriptor stage-1 walks (LPAE '
             'configuration, TTBCR.EAE = 1, and the Hyp-mode stage 1): TTBR0/1 / HTTBR (40 bit), EPD0/1, MAIR0/1, every 64-bit descriptor and the address '
             'symbolic, T0SZ/T1SZ enumerated: TTBR selection, start level, table/block/page descriptors at levels 1-3, '
             'hierarchical table attributes, access flag, AP[2:1], PA(40 bit), NS, MAIR decode and shareability vs the '
             'B3.19.6 oracle; a walk succeeds exactly when the oracle reports no fault.',
        ref='DESIGN.md 6/C15 and 14.8', note='TRE=1, no hardware AF update, no stage 2; long-descriptor '
                                    'fault reports end in a repository stub (only "faults here, nothing else changed" is '
                                    'claimed for them); quick fixes N / T0SZ,T1SZ pairs and injective remap / MAIR settings'),
    'C18': dict(
        text='emulate_cycle over the whole instruction space in shards (ARM bits 27:20; Thumb-16 bits 15:8; Thumb-32 '
             'hw1[12:4]) with every other bit and the whole machine state symbolic, UNPREDICTABLE included: no host '
             'exception escapes (NotImplementedError of mock hooks allowed), registers stay 32-bit, PC aligned.',
        ref='DESIGN.md 6/C18', note='single step from arbitrary valid state; SCR.NS, NSACR, CPACR symbolic; LDM/STM '
                                    'register lists windowed; MPU off; quick: a fixed spread of 72 shards plus the shards '
                                    'that executed a source file differing from the last fully checked tree (vf/changed.py); '
                                    'thorough: every shard'),
    'C19': dict(
        text='Same sweep from CPSR.M = User: still User with A/I/F, other banks, SPSRs and EVERY system register '
             '(generic snapshot) unchanged, or exception taken to a privileged mode at its vector with SPSR.M = User; '
             'SCR.{NS,FW,AW}, NSACR, CPACR symbolic. Unprivileged loads/stores (LDRT/STRT & co, 24 rows) stepped in '
             'every mode with the MPU on against the oracle that applies User permissions to their accesses.',
        ref='DESIGN.md 6/C19', note='as C18 (quick: fixed spread of 72 shards + the 29 privileged-instruction shards + '
                                    'change-directed shards; thorough: all); MPU rows with one symbolic region (thorough: '
                                    'subregions, two regions)'),
    'C20': dict(
        text='Scratch state havocked before steps (determinism / snapshot independence), reflection-based check that no '
             'module-level object is written, and isolation with a foreign instance created between construction and '
             'step (equal configuration: unaffected; different configuration: known finding F015); history before a '
             'snapshot (same bits executed in the other instruction set, or in the same one from unrelated flags / IT state) and construction after a foreign instance '
             'with symbolic configured reset values leave the instance in its solo state.',
        ref='DESIGN.md 6/C20', note='thread schedules outside the technique'),
}

NOT_BUILT = 'check not built yet (framework under construction; see DESIGN.md Appendix A)'

# properties whose checks exist but whose end-to-end run on the unchanged tree is not yet validated are not claimed
READY = ['C%02d' % i for i in range(1, 21)]


def main():
    checks = []
    for pid in PROPS:
        if pid in CLAIMED and pid in READY:
            c = CLAIMED[pid]
            checks.append({
                'property_id': pid,
                'quick_cmd': './check %s quick' % pid,
                'thorough_cmd': './check %s thorough' % pid,
                'evidence_file': 'evidence/%s.json' % pid,
                'replay_cmd_template': './check replay {path}',
                'engine': 'symx',
                'level_claimed': {'category': 'other', 'text': c['text'], 'design_ref': c['ref']},
                'level_note': c['note'],
                'technique': TECH,
            })
    m = {
        'version': 1,
        'setup_cmd': 'python3-vt -c "import z3" && PYTHONPATH=/repo:. python3-vt -m symx.selftest 200',
        'hooks': {'guard': 'ARMULATOR_VERIF',
                  'enable': 'no hooks: the engine rebinds names at run time in its own process; /repo is used as is',
                  'baseline_off_cmd': 'cd /repo && /venv/bin/python -m pytest -ra -q -p no:cacheprovider --timeout=900 '
                                      '--continue-on-collection-errors',
                  'source_commits': [], 'add_only': True},
        'engines': [{'name': 'symx', 'path': 'symx/', 'serves_properties': sorted(p for p in CLAIMED if p in READY),
                     'kind_free_text': 'purpose-made dynamic symbolic executor for Python: z3 bit-vector proxy ints, '
                                       'DFS by re-execution, incremental solver, replay of models on the real code'}],
        'checks': checks,
        'not_applicable': [{'property_id': p, 'reason': NOT_BUILT} for p in PROPS if not (p in CLAIMED and p in READY)],
        'notes': 'exit codes: 0 held / 1 reproduced violation / 2 inconclusive or harness error (nothing claimed)',
    }
    with open(os.path.join(HERE, 'MANIFEST.json'), 'w') as f:
        json.dump(m, f, indent=1)


if __name__ == '__main__':
    main()
