#!/bin/sh
# development aid: run a tier of every check in sequence, log wall time and exit code
tier=${1:-thorough}; shift
props=${*:-C17 C11 C16 C13 C04 C05 C10 C12 C14 C01 C08 C18 C19 C06 C07 C09 C20 C03 C02 C15}
cd "$(dirname "$0")/.." || exit 2
for p in $props; do
  s=$(date +%s)
  ./check $p $tier > /tmp/runall_${p}_${tier}.log 2>&1
  rc=$?
  e=$(date +%s)
  echo "$p $tier rc=$rc wall=$((e-s))s $(grep -c '^VIOLATION' /tmp/runall_${p}_${tier}.log) violations, $(grep -c '^INCONCL' /tmp/runall_${p}_${tier}.log) inconclusive | $(head -1 /tmp/runall_${p}_${tier}.log | cut -c1-160)"
done
