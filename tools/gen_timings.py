#!/usr/bin/env python3
"""vf/timings.json: per-unit wall times of the latest evidence files (scheduling hint for the runner)"""
import glob, json, os
V = os.path.dirname(os.path.dirname(os.path.abspath(__file__)))
p = os.path.join(V, 'vf', 'timings.json')
try:
    t = json.load(open(p))
except (OSError, ValueError):
    t = {}
for f in glob.glob(V + '/evidence/C*.json'):
    for u in json.load(open(f))['coverage'].get('units', []):
        if u.get('wall_s', 0) >= 2:
            t[u['name']] = round(u['wall_s'], 1)
json.dump(t, open(p, 'w'), indent=0, sort_keys=True)
print(len(t), 'units')
