#!/usr/bin/env python3
"""markdown table of the seeded changes and the checks that catch them (from seeded/*/meta.json)"""
import glob, json, os
V = os.path.dirname(os.path.dirname(os.path.abspath(__file__)))
print('| seeded change | property | what it changes (file) | what it needs to show | caught by (quick tier unless noted) | not caught by | when first evaluated |')
print('|---|---|---|---|---|---|---|')
for f in sorted(glob.glob(V + '/seeded/*/meta.json')):
    d = json.load(open(f))
    ev = d.get('evaluation', {})
    ch = ev.get('checks', {})
    hit = [p for p, c in sorted(ch.items()) if c.get('exit') == 1 and (c.get('violations') or 0)]
    miss = [p + (' (exit %s)' % c.get('exit')) for p, c in sorted(ch.items()) if not (c.get('exit') == 1 and (c.get('violations') or 0))]
    what = d.get('what', '').split('. ')[0][:160]
    needs = d.get('needs', '').split('. ')[0][:160]
    files = ', '.join(os.path.basename(x) for x in d.get('files', []))[:60]
    first = ''
    ee = d.get('earlier_evaluations') or []
    if ee:
        c0 = ee[0].get('checks', {})
        first = ', '.join('%s: %s' % (p, 'caught' if (c.get('exit') == 1 and (c.get('violations') or 0)) else 'exit %s' % c.get('exit'))
                          for p, c in sorted(c0.items()))
    print('| %s | %s | %s (%s) | %s | %s | %s | %s |' % (os.path.basename(os.path.dirname(f)), d.get('property'), what, files, needs,
                                                   ', '.join(hit) or '-', ', '.join(miss) or '-', first or 'same'))
