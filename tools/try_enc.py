#!/usr/bin/env python3
"""Development aid: run the H-step unit of some encodings and replay counterexamples.
usage: PYTHONPATH=/repo:/verif python3-vt tools/try_enc.py Enc1,Enc2 [arch] ['{"sym_sys": {...}, ...}']"""
import json
import os
import sys
import time

sys.path[:0] = [os.environ.get('VERIF_REPO', '/repo'), '/verif']
from vf import runner  # noqa
from vf.runner import UnitSpec  # noqa


def main():
    names = sys.argv[1].split(',')
    arch = int(sys.argv[2]) if len(sys.argv) > 2 else 6
    extra = json.loads(sys.argv[3]) if len(sys.argv) > 3 else {}
    us = [UnitSpec('step/%s/v%d' % (n, arch), 'vf.step', 'mk_step', dict({'enc': n, 'arch': arch}, **extra),
                   max_seconds=int(extra.pop('max_seconds', 600)) if False else 600) for n in names]
    t = time.time()
    res = runner.run_specs(us)
    for d in sorted(res, key=lambda d: d['name']):
        print(d['name'], 'paths', d['paths'], 'aborted', d['aborted'], 'obl', d['obligations'], 'dis', d['discharged'],
              'q', d['queries'], 'solver', d['solver_s'], 'wall', round(d['wall_s'], 1), d['outcomes'])
        for i, f in enumerate(d['failures'][:3]):
            path = runner.write_replay('TRY', d['spec'], f, i)
            rep, text = runner.replay_file(path)
            brief = {k: v for k, v in f['inputs'].items() if not k.startswith(('R_', 'spsr_', 'elr_', 'mem'))}
            print('   FAIL reproduced=%s' % rep, f['claims'][:6], json.dumps(brief)[:500])
            print('        ', text[-400:])
        for i in d['inconclusive'][:3]:
            print('   INC', str(i)[:1500])
        if d.get('harness_error'):
            print(d['harness_error'][-2500:])
    print('total %.1fs' % (time.time() - t))


if __name__ == '__main__':
    main()
