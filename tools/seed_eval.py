#!/usr/bin/env python3
"""Evaluate a seeded change: confirm it (tests pass, demo fails with / passes without the change), store it under
/verif/seeded/<name>/, and run the given checks against the changed tree.

usage: tools/seed_eval.py <name> <worktree|from-patch> <property> [more properties] [--tier quick|thorough] [--in-repo]
  default: the checks run with VERIF_REPO=<worktree> (evidence redirected to a scratch directory)
  --in-repo: apply patch.diff to /repo, run the checks there, and undo it (git checkout -- .)"""
import json
import os
import shutil
import subprocess
import sys
import tempfile
import time

VERIF = os.path.dirname(os.path.dirname(os.path.abspath(__file__)))


def sh(cmd, cwd=None, env=None, timeout=7200):
    p = subprocess.run(cmd, shell=True, cwd=cwd, env=env, capture_output=True, text=True, timeout=timeout)
    return p.returncode, p.stdout + p.stderr


def main():
    args = [a for a in sys.argv[1:] if not a.startswith('--')]
    name, wt, props = args[0], args[1], args[2:]
    tier = 'quick'
    if '--tier' in sys.argv:
        tier = sys.argv[sys.argv.index('--tier') + 1]
        props = [p for p in props if p != tier]
    in_repo = '--in-repo' in sys.argv
    if wt == 'from-patch':
        # no scratch worktree of the author left: rebuild one from the stored patch (demo.py is stored next to it)
        wt = tempfile.mkdtemp(prefix='seed-re-')
        os.rmdir(wt)
        sh('git -C /repo worktree add -q %s HEAD' % wt)
        d0 = os.path.join(VERIF, 'seeded', name)
        rc, o = sh('git apply %s/patch.diff' % d0, cwd=wt)
        assert rc == 0, o
        for f in ('demo.py',):
            if os.path.exists(os.path.join(d0, f)):
                shutil.copy(os.path.join(d0, f), os.path.join(wt, f))
        try:
            sys.argv[sys.argv.index('from-patch')] = wt
            return main()
        finally:
            sh('git -C /repo worktree remove --force %s' % wt)
    out = {'name': name, 'worktree': wt, 'ran': []}
    rc, o = sh('/venv/bin/python -m pytest -q -p no:cacheprovider 2>&1 | tail -1', cwd=wt)
    out['tests_with_change'] = o.strip()
    rc1, o1 = sh('/venv/bin/python demo.py', cwd=wt)
    # (git stash is shared between worktrees of one repository: use apply -R / apply instead)
    sh('git diff -- armulator > .seed_eval.diff', cwd=wt)
    sh('git apply -R .seed_eval.diff', cwd=wt)
    rc0, o0 = sh('/venv/bin/python demo.py', cwd=wt)
    sh('git apply .seed_eval.diff', cwd=wt)
    os.remove(os.path.join(wt, '.seed_eval.diff'))
    out['demo_with_change'] = (rc1, o1.strip()[-200:])
    out['demo_without_change'] = (rc0, o0.strip()[-200:])
    confirmed = ('686 passed' in o) and rc1 != 0 and rc0 == 0
    out['confirmed'] = confirmed
    d = os.path.join(VERIF, 'seeded', name)
    os.makedirs(d, exist_ok=True)
    sh('git diff -- armulator > %s/patch.diff' % d, cwd=wt)
    for f in ('demo.py', 'meta.json'):
        if os.path.exists(os.path.join(wt, f)):
            shutil.copy(os.path.join(wt, f), os.path.join(d, f))
    results = {}
    if confirmed:
        # evaluate against the CURRENT /repo HEAD + the seeded patch (the seed's own worktree may be based on an
        # older HEAD that still contains defects repaired since)
        fresh = tempfile.mkdtemp(prefix='seed-wt-')
        os.rmdir(fresh)
        sh('git -C /repo worktree add -q %s HEAD' % fresh)
        rca, oa = sh('git apply %s/patch.diff' % d, cwd=fresh)
        out['applies_to_head'] = (rca == 0)
        if rca != 0:
            out['apply_error'] = oa[-300:]
        try:
            for p in props:
                if rca != 0:
                    break
                env = dict(os.environ)
                scratch = tempfile.mkdtemp(prefix='seed-evid-')
                env['VERIF_EVIDENCE_DIR'] = scratch
                t = time.time()
                if in_repo:
                    sh('git -C /repo apply %s/patch.diff' % d)
                    try:
                        rc, o = sh('./check %s %s' % (p, tier), cwd=VERIF, env=env)
                    finally:
                        sh('git -C /repo checkout -- .')
                else:
                    env['VERIF_REPO'] = fresh
                    rc, o = sh('./check %s %s' % (p, tier), cwd=VERIF, env=env)
                viol = [l for l in o.splitlines() if l.startswith('VIOLATION')]
                units = [l.strip()[:260] for l in o.splitlines() if l.startswith('  unit ')]
                results[p] = {'exit': rc, 'violations': len(viol), 'first_units': units[:4],
                              'wall_s': round(time.time() - t), 'mode': 'in-repo' if in_repo else 'VERIF_REPO',
                              'tier': tier, 'tail': [l[:200] for l in o.splitlines()
                                                     if l.startswith(('INCONCL', 'NON-REPRO', 'HARNESS'))][:4]}
                shutil.rmtree(scratch, ignore_errors=True)
        finally:
            sh('git -C /repo worktree remove --force %s' % fresh)
    out['checks'] = results
    meta = {}
    mp = os.path.join(d, 'meta.json')
    if os.path.exists(mp):
        try:
            meta = json.load(open(mp))
        except Exception:
            meta = {'raw': open(mp).read()}
    if isinstance(meta.get('evaluation'), dict) and meta['evaluation'].get('checks'):
        # keep what earlier versions of the checks reported for this change (exit code and violation count per check)
        prev = meta['evaluation']
        meta.setdefault('earlier_evaluations', []).append(
            {'verif_commit': prev.get('verif_commit'), 'checks': {k: {'exit': v.get('exit'), 'violations': v.get('violations'),
                                                                    'tier': v.get('tier')} for k, v in prev['checks'].items()}})
    rcg, og = sh('git -C %s rev-parse --short HEAD' % VERIF)
    out['verif_commit'] = og.strip()
    meta['evaluation'] = out
    json.dump(meta, open(mp, 'w'), indent=1)
    print(json.dumps(out, indent=1))


if __name__ == '__main__':
    main()
