#!/usr/bin/env python3
"""compact view of the replay files of a property: unit -> failing claims -> instruction fields / flags"""
import glob, json, sys, collections
pid = sys.argv[1]
seen = collections.OrderedDict()
for p in sorted(glob.glob('/verif/evidence/replays/%s-*.json' % pid)):
    r = json.load(open(p))
    unit = r['spec']['name']
    key = (unit.rsplit('/v', 1)[0] if '/v' in unit else unit, tuple(c.split(' [')[0] for c in r['claims'][:6]))
    if key in seen:
        seen[key][1] += 1
        continue
    inp = {k: v for k, v in r['inputs'].items() if k.startswith('f_') or k.startswith('cpsr') or k.startswith('sys_')}
    seen[key] = [r, 1, inp, p]
for (unit, claims), (r, n, inp, p) in seen.items():
    print('%-46s x%d %s' % (unit, n, [c[:90] for c in r['claims'][:5]]))
    print('      ', json.dumps(inp)[:300], p.split('/')[-1])
