"""Architectural bit positions of named register fields (ARM ARM DDI 0406C, B1.3.3, B4.1, B6.1).
Transcribed from the manual; (msb, lsb).  Keys are the repository's class names; field names follow
the repository's property names (lower-case architectural names)."""

B = lambda n: (n, n)

FIELDS = {
    'CPSR': {  # B1.3.3
        'n': B(31), 'z': B(30), 'c': B(29), 'v': B(28), 'q': B(27), 'j': B(24), 'ge': (19, 16), 'e': B(9), 'a': B(8),
        'i': B(7), 'f': B(6), 't': B(5), 'm': (4, 0),
    },
    'SCTLR': {  # B4.1.130 (VMSA) / B6.1.86 (PMSA)
        'ie': B(31), 'te': B(30), 'afe': B(29), 'tre': B(28), 'nmfi': B(27), 'ee': B(25), 've': B(24), 'u': B(22),
        'fi': B(21), 'uwxn': B(20), 'wxn': B(19), 'dz': B(19), 'ha': B(17), 'br': B(17), 'rr': B(14), 'v': B(13),
        'i': B(12), 'z': B(11), 'sw': B(10), 'b': B(7), 'cp15ben': B(5), 'c': B(2), 'a': B(1), 'm': B(0),
    },
    'SCR': {  # B4.1.129
        'ns': B(0), 'irq': B(1), 'fiq': B(2), 'ea': B(3), 'fw': B(4), 'aw': B(5), 'net': B(6), 'scd': B(7), 'hce': B(8),
        'sif': B(9),
    },
    'TTBCR': {  # B4.1.153 (short- and long-descriptor formats)
        'eae': B(31), 'sh1': (29, 28), 'orgn1': (27, 26), 'irgn1': (25, 24), 'epd1': B(23), 'a1': B(22),
        't1sz': (18, 16), 'sh0': (13, 12), 'orgn0': (11, 10), 'irgn0': (9, 8), 'epd0': B(7), 'pd1': B(5), 'pd0': B(4),
        't0sz': (2, 0), 'n': (2, 0),
    },
    'DFSR': {  # B4.1.52 / B6.1.33
        'cm': B(13), 'ext': B(12), 'wnr': B(11), 'lpae': B(9), 'domain': (7, 4), 'status': (5, 0),
    },
    'HCR': {  # B4.1.66
        'tge': B(27), 'tvm': B(26), 'ttlb': B(25), 'tpu': B(24), 'tpc': B(23), 'tsw': B(22), 'tac': B(21),
        'tidcp': B(20), 'tsc': B(19), 'twe': B(14), 'twi': B(13), 'dc': B(12), 'bsu': (11, 10), 'fb': B(9), 'va': B(8),
        'vi': B(7), 'vf': B(6), 'amo': B(5), 'imo': B(4), 'fmo': B(3), 'ptw': B(2), 'swio': B(1), 'vm': B(0),
    },
    'HSCTLR': {  # B4.1.74
        'te': B(30), 'ee': B(25), 'fi': B(21), 'wxn': B(19), 'i': B(12), 'cp15ben': B(5), 'c': B(2), 'a': B(1),
        'm': B(0),
    },
    'HCPTR': {'tcpac': B(31), 'tta': B(20), 'tase': B(15)},  # B4.1.65
    'HDCR': {  # B4.1.67
        'tdra': B(11), 'tdosa': B(10), 'tda': B(9), 'tde': B(8), 'hpme': B(7), 'tpm': B(6), 'tpmcr': B(5),
        'hpmn': (4, 0),
    },
    'HSR': {'ec': (31, 26), 'il': B(25), 'iss': (24, 0)},  # B4.1.75
    'HSTR': {'tjdbx': B(17), 'ttee': B(16)},  # B4.1.76
    'HTCR': {'sh0': (13, 12), 'orgn0': (11, 10), 'irgn0': (9, 8), 't0sz': (2, 0)},  # B4.1.77
    'VTCR': {'sh0': (13, 12), 'orgn0': (11, 10), 'irgn0': (9, 8), 'sl0': (7, 6), 's': B(4), 't0sz': (3, 0)},
    'HPFAR': {'fipa': (31, 4)},  # B4.1.73
    'NSACR': {'nsd32dis': B(14), 'nsasedis': B(15), 'rfr': B(19), 'nstrcdis': B(20)},  # B4.1.111
    'CPACR': {'trcdis': B(28), 'd32dis': B(30), 'asedis': B(31)},  # B4.1.40
    'FCSEIDR': {'pid': (31, 25)},  # B4.1.57
    'FPEXC': {'ex': B(31), 'en': B(30)},  # B4.1.57
    'JMCR': {'je': B(0)},
    'TEECR': {'xed': B(0)},
    'SDER': {'suniden': B(1), 'suiden': B(0)},
    'SUNAVCR': {'v': B(0)},
    'MIDR': {'implementer': (31, 24), 'variant': (23, 20), 'architecture': (19, 16), 'primary_part_number': (15, 4),
             'revision': (3, 0)},
    'MPUIR': {'nu': B(0), 'iregion': (23, 16), 'dregion': (15, 8)},  # B6.1.70
    'PRRR': {'ns1': B(19), 'ns0': B(18), 'ds1': B(17), 'ds0': B(16)},  # B4.1.127
    'DRACR': {'xn': B(12), 'ap': (10, 8), 'tex': (5, 3), 's': B(2), 'c': B(1), 'b': B(0)},  # B6.1.35
    'IRACR': {'xn': B(12), 'ap': (10, 8), 'tex': (5, 3), 's': B(2), 'c': B(1), 'b': B(0)},
    'DRSR': {'rsize': (5, 1), 'en': B(0)},  # B6.1.37
    'IRSR': {'rsize': (5, 1), 'en': B(0)},
    'DBGDIDR': {'wrps': (31, 28), 'brps': (27, 24), 'ctx_cmps': (23, 20), 'version': (19, 16), 'devid_imp': B(15),
                'nsuhd_imp': B(14), 'pcsr_imp': B(13), 'se_imp': B(12), 'variant': (7, 4), 'revision': (3, 0)},
    'PMCR': {'e': B(0), 'p': B(1), 'c': B(2), 'd': B(3), 'x': B(4), 'dp': B(5), 'imp': (31, 24), 'idcode': (23, 16),
             'n': (15, 11)},
    'IdPfr1': {'gt': (19, 16), 've': (15, 12), 'm_profile': (11, 8), 'se': (7, 4), 'pm': (3, 0)},
}

# composite fields: name -> list of (msb, lsb) slices, most significant first
COMPOSITE = {
    'CPSR': {'it': [(15, 10), (26, 25)], 'isetstate': [(24, 24), (5, 5)]},
    'DFSR': {'fs': [(10, 10), (3, 0)]},
}

# indexed accessors: (getter, setter, index range, lambda n -> (msb, lsb))
INDEXED = {
    'CPACR': [('get_cp_n', 'set_cp_n', range(0, 14), lambda n: (2 * n + 1, 2 * n))],
    'DACR': [('get_d_n', 'set_d_n', range(0, 16), lambda n: (2 * n + 1, 2 * n))],
    'NSACR': [('get_cp_n', 'set_cp_n', range(0, 14), lambda n: (n, n))],
    'HCPTR': [('get_tcp_n', 'set_tcp_n', range(0, 14), lambda n: (n, n))],
    'HSTR': [('get_t_n', 'set_t_n', range(0, 16), lambda n: (n, n))],
    'HCR': [('get_tid_n', 'set_tid_n', range(0, 4), lambda n: (15 + n, 15 + n))],
    'NMRR': [('get_ir_n', 'set_ir_n', range(0, 8), lambda n: (2 * n + 1, 2 * n)),
             ('get_or_n', 'set_or_n', range(0, 8), lambda n: (2 * n + 17, 2 * n + 16))],
    'PRRR': [('get_tr_n', 'set_tr_n', range(0, 8), lambda n: (2 * n + 1, 2 * n)),
             ('get_nos_n', 'set_nos_n', range(0, 8), lambda n: (n + 24, n + 24))],
    'DRSR': [('get_sd_n', 'set_sd_n', range(0, 8), lambda n: (8 + n, 8 + n))],
    'IRSR': [('get_sd_n', 'set_sd_n', range(0, 8), lambda n: (8 + n, 8 + n))],
    'VBAR': [],
}

FIELDS['RACR'] = FIELDS['DRACR']
FIELDS['RSR'] = FIELDS['DRSR']
INDEXED['RSR'] = INDEXED['DRSR']
