"""Instruction table: multiply / multiply-accumulate / divide family.  DDI 0406C A8.8 (A5.2.5, A5.2.7, A5.4.4,
A6.3.16, A6.3.17): MUL MLA MLS UMULL UMLAL UMAAL SMULL SMLAL SMULxy SMLAxy SMULWy SMLAWy SMLALxy SMUAD SMUSD
SMLAD SMLSD SMLALD SMLSLD SMMUL SMMLA SMMLS SDIV UDIV, ARM A1 and Thumb T1/T2."""
import z3

from . import pseudo as P
from .pseudo import BV, bv, bits, bit, zx, sx, cat
from .isa import Enc, any_of, in_it_block
from .state import St, N_, Z_, C_, V_, Q_

FAM = 'mul'


# ---- small helpers ----------------------------------------------------------------------------------

def r4(x):
    """register-number field as a 4-bit term (3-bit Thumb fields are zero-extended)"""
    return x if x.size() == 4 else zx(x, 4)


def pc(*xs):
    return z3.Or(*[r4(x) == 15 for x in xs])


def badreg(*xs):
    return z3.Or(*[any_of(r4(x), 13, 15) for x in xs])


def smul64(a, b):
    """SInt(a) * SInt(b) as a 64-bit term (exact for operands of up to 32 bits)"""
    return sx(a, 64) * sx(b, 64)


def umul64(a, b):
    return zx(a, 64) * zx(b, 64)


def set_q_if(S, ov):
    S.set_cbit(Q_, z3.Or(S.cbit(Q_), ov))


def flags_nz(S, sf, result):
    """if setflags: N = result<top>, Z = IsZeroBit(result); C (and V) unchanged from ARMv5 on; UNKNOWN on ARMv4"""
    if isinstance(sf, bool):
        sf = z3.BoolVal(sf)
    if S.arch < 5:
        S.unpredictable(sf)  # C / V are UNKNOWN: outside the claim
    T = S.copy()
    T.set_nz(result)
    S.assign(St.merge(sf, T, S))


def half(x, high):
    """x<31:16> if high else x<15:0>; high: 1-bit term"""
    return z3.If(high == 1, bits(x, 31, 16), bits(x, 15, 0))


def S_field(S, f):
    return f['S'] == 1


# ---- operations -------------------------------------------------------------------------------------

def mul_sem(d, n, m, setflags):
    def sem(S, f):
        result = S.reg(r4(f[n])) * S.reg(r4(f[m]))  # low 32 bits of the product (signedness irrelevant)
        sf = setflags(S, f)
        S.set_reg(r4(f[d]), result)
        flags_nz(S, sf, result)
    return sem


def mla_sem(sub, setflags):
    def sem(S, f):
        prod = S.reg(f['Rn']) * S.reg(f['Rm'])
        addend = S.reg(f['Ra'])
        result = addend - prod if sub else prod + addend
        sf = setflags(S, f)
        S.set_reg(f['Rd'], result)
        flags_nz(S, sf, result)
    return sem


def long_sem(kind, setflags):
    """kind: umull umlal umaal smull smlal"""
    def sem(S, f):
        rn, rm = S.reg(f['Rn']), S.reg(f['Rm'])
        hi, lo = S.reg(f['RdHi']), S.reg(f['RdLo'])
        if kind == 'umull':
            result = umul64(rn, rm)
        elif kind == 'umlal':
            result = umul64(rn, rm) + cat(hi, lo)
        elif kind == 'umaal':
            result = umul64(rn, rm) + zx(hi, 64) + zx(lo, 64)
        elif kind == 'smull':
            result = smul64(rn, rm)
        elif kind == 'smlal':
            result = smul64(rn, rm) + cat(hi, lo)
        else:
            raise AssertionError(kind)
        sf = setflags(S, f)
        S.set_reg(f['RdHi'], bits(result, 63, 32))
        S.set_reg(f['RdLo'], bits(result, 31, 0))
        flags_nz(S, sf, result)
    return sem


def no_flags(S, f):
    return False


def smlaxy_sem(acc):
    """SMULxy / SMLAxy"""
    def sem(S, f):
        op1 = half(S.reg(f['Rn']), f['N'])
        op2 = half(S.reg(f['Rm']), f['M'])
        result = smul64(op1, op2)
        if acc:
            result = result + sx(S.reg(f['Ra']), 64)
        r32 = bits(result, 31, 0)
        S.set_reg(f['Rd'], r32)
        if acc:
            set_q_if(S, result != sx(r32, 64))
    return sem


def smlawy_sem(acc):
    """SMULWy / SMLAWy"""
    def sem(S, f):
        op2 = half(S.reg(f['Rm']), f['M'])
        result = smul64(S.reg(f['Rn']), op2)
        if acc:
            result = result + (sx(S.reg(f['Ra']), 64) << 16)
        r32 = bits(result, 47, 16)
        S.set_reg(f['Rd'], r32)
        if acc:
            set_q_if(S, (result >> 16) != sx(r32, 64))
    return sem


def smlalxy_sem(S, f):
    op1 = half(S.reg(f['Rn']), f['N'])
    op2 = half(S.reg(f['Rm']), f['M'])
    result = smul64(op1, op2) + cat(S.reg(f['RdHi']), S.reg(f['RdLo']))
    S.set_reg(f['RdHi'], bits(result, 63, 32))
    S.set_reg(f['RdLo'], bits(result, 31, 0))


def dual_products(S, f):
    rn = S.reg(f['Rn'])
    rm = S.reg(f['Rm'])
    operand2 = z3.If(f['M'] == 1, z3.RotateRight(rm, 16), rm)
    p1 = smul64(bits(rn, 15, 0), bits(operand2, 15, 0))
    p2 = smul64(bits(rn, 31, 16), bits(operand2, 31, 16))
    return p1, p2


def dual_sem(sub, acc):
    """SMUAD SMUSD SMLAD SMLSD"""
    def sem(S, f):
        p1, p2 = dual_products(S, f)
        result = p1 - p2 if sub else p1 + p2
        if acc:
            result = result + sx(S.reg(f['Ra']), 64)
        r32 = bits(result, 31, 0)
        S.set_reg(f['Rd'], r32)
        if acc or not sub:  # SMUSD cannot overflow (and its pseudocode does not touch Q)
            set_q_if(S, result != sx(r32, 64))
    return sem


def dual_long_sem(sub):
    """SMLALD SMLSLD"""
    def sem(S, f):
        p1, p2 = dual_products(S, f)
        result = (p1 - p2 if sub else p1 + p2) + cat(S.reg(f['RdHi']), S.reg(f['RdLo']))
        S.set_reg(f['RdHi'], bits(result, 63, 32))
        S.set_reg(f['RdLo'], bits(result, 31, 0))
    return sem


def smm_sem(kind):
    """SMMUL SMMLA SMMLS"""
    def sem(S, f):
        prod = smul64(S.reg(f['Rn']), S.reg(f['Rm']))
        if kind == 'mul':
            result = prod
        else:
            a = cat(S.reg(f['Ra']), BV(0, 32))  # SInt(R[a]) << 32  (mod 2^64)
            result = a + prod if kind == 'mla' else a - prod
        result = z3.If(f['R'] == 1, result + BV(0x80000000, 64), result)
        S.set_reg(f['Rd'], bits(result, 63, 32))
    return sem


def div_sem(signed):
    """SDIV / UDIV: RoundTowardsZero(n / m); divisor zero -> 0 (IntegerZeroDivideTrappingEnabled() is FALSE: it needs
    the ARMv7-R profile with SCTLR.DZ == 1, the configuration under test is not R profile)"""
    def sem(S, f):
        n, m = S.reg(f['Rn']), S.reg(f['Rm'])
        if signed:
            q = bits(sx(n, 33) / sx(m, 33), 31, 0)  # bvsdiv truncates toward zero; 33 bits hold INT_MIN / -1
        else:
            q = z3.UDiv(n, m)
        S.set_reg(f['Rd'], z3.If(m == 0, BV(0, 32), q))
    return sem


# ===========================================================================================================
# ARM
# ===========================================================================================================

def unp_mul_a(f, S):
    u = pc(f['Rd'], f['Rn'], f['Rm'])
    if S.arch < 6:
        u = z3.Or(u, f['Rd'] == f['Rn'])
    return u


def unp_mla_a(f, S):
    u = pc(f['Rd'], f['Rn'], f['Rm'], f['Ra'])
    if S.arch < 6:
        u = z3.Or(u, f['Rd'] == f['Rn'])
    return u


def unp_long_a(f, S):
    u = z3.Or(pc(f['RdLo'], f['RdHi'], f['Rn'], f['Rm']), f['RdHi'] == f['RdLo'])
    if S.arch < 6:
        u = z3.Or(u, f['RdHi'] == f['Rn'], f['RdLo'] == f['Rn'])
    return u


def unp_long_nov4(f, S):
    return z3.Or(pc(f['RdLo'], f['RdHi'], f['Rn'], f['Rm']), f['RdHi'] == f['RdLo'])


unp_dnm_a = lambda f, S: pc(f['Rd'], f['Rn'], f['Rm'])
unp_dnma_a = lambda f, S: pc(f['Rd'], f['Rn'], f['Rm'], f['Ra'])
ra_not_pc = lambda f: f['Ra'] != 15

Enc('MulA1', 'A', 'cond 0000000 S Rd (0)(0)(0)(0) Rm 1001 Rn', family=FAM, unpred=unp_mul_a,
    sem=mul_sem('Rd', 'Rn', 'Rm', S_field))
Enc('MlaA1', 'A', 'cond 0000001 S Rd Ra Rm 1001 Rn', family=FAM, unpred=unp_mla_a, sem=mla_sem(False, S_field))
Enc('UmaalA1', 'A', 'cond 00000100 RdHi RdLo Rm 1001 Rn', family=FAM, arch=6, unpred=unp_long_nov4,
    sem=long_sem('umaal', no_flags))
Enc('MlsA1', 'A', 'cond 00000110 Rd Ra Rm 1001 Rn', family=FAM, arch=6, unpred=unp_dnma_a,
    sem=mla_sem(True, no_flags))
for _k, _code in (('umull', '100'), ('umlal', '101'), ('smull', '110'), ('smlal', '111')):
    Enc(_k.capitalize() + 'A1', 'A', 'cond 0000%s S RdHi RdLo Rm 1001 Rn' % _code, family=FAM, unpred=unp_long_a,
        sem=long_sem(_k, S_field))

# halfword multiplies (ARMv5TE)
Enc('SmlaA1', 'A', 'cond 00010000 Rd Ra Rm 1 M N 0 Rn', family=FAM, arch=5, unpred=unp_dnma_a, sem=smlaxy_sem(True))
Enc('SmlawA1', 'A', 'cond 00010010 Rd Ra Rm 1 M 0 0 Rn', family=FAM, arch=5, unpred=unp_dnma_a,
    sem=smlawy_sem(True))
Enc('SmulwA1', 'A', 'cond 00010010 Rd (0)(0)(0)(0) Rm 1 M 1 0 Rn', family=FAM, arch=5, unpred=unp_dnm_a,
    sem=smlawy_sem(False))
Enc('SmlalxyA1', 'A', 'cond 00010100 RdHi RdLo Rm 1 M N 0 Rn', family=FAM, arch=5, unpred=unp_long_nov4,
    sem=smlalxy_sem)
Enc('SmulA1', 'A', 'cond 00010110 Rd (0)(0)(0)(0) Rm 1 M N 0 Rn', family=FAM, arch=5, unpred=unp_dnm_a,
    sem=smlaxy_sem(False))

# signed multiplies (ARMv6), divides
Enc('SmladA1', 'A', 'cond 01110000 Rd Ra Rm 00 M 1 Rn', family=FAM, arch=6, guard=ra_not_pc, unpred=unp_dnm_a,
    sem=dual_sem(False, True))
Enc('SmuadA1', 'A', 'cond 01110000 Rd 1111 Rm 00 M 1 Rn', family=FAM, arch=6, unpred=unp_dnm_a,
    sem=dual_sem(False, False))
Enc('SmlsdA1', 'A', 'cond 01110000 Rd Ra Rm 01 M 1 Rn', family=FAM, arch=6, guard=ra_not_pc, unpred=unp_dnm_a,
    sem=dual_sem(True, True))
Enc('SmusdA1', 'A', 'cond 01110000 Rd 1111 Rm 01 M 1 Rn', family=FAM, arch=6, unpred=unp_dnm_a,
    sem=dual_sem(True, False))
Enc('SdivA1', 'A', 'cond 01110001 Rd (1)(1)(1)(1) Rm 000 1 Rn', family=FAM, arch=7, unpred=unp_dnm_a,
    sem=div_sem(True))
Enc('UdivA1', 'A', 'cond 01110011 Rd (1)(1)(1)(1) Rm 000 1 Rn', family=FAM, arch=7, unpred=unp_dnm_a,
    sem=div_sem(False))
Enc('SmlaldA1', 'A', 'cond 01110100 RdHi RdLo Rm 00 M 1 Rn', family=FAM, arch=6, unpred=unp_long_nov4,
    sem=dual_long_sem(False))
Enc('SmlsldA1', 'A', 'cond 01110100 RdHi RdLo Rm 01 M 1 Rn', family=FAM, arch=6, unpred=unp_long_nov4,
    sem=dual_long_sem(True))
Enc('SmmlaA1', 'A', 'cond 01110101 Rd Ra Rm 00 R 1 Rn', family=FAM, arch=6, guard=ra_not_pc, unpred=unp_dnm_a,
    sem=smm_sem('mla'))
Enc('SmmulA1', 'A', 'cond 01110101 Rd 1111 Rm 00 R 1 Rn', family=FAM, arch=6, unpred=unp_dnm_a, sem=smm_sem('mul'))
Enc('SmmlsA1', 'A', 'cond 01110101 Rd Ra Rm 11 R 1 Rn', family=FAM, arch=6, unpred=unp_dnma_a, sem=smm_sem('mls'))

# ===========================================================================================================
# Thumb
# ===========================================================================================================

def unp_mul_t1(f, S):
    # d == n is only UNPREDICTABLE before ARMv6; here d = m = Rdm
    return f['Rdm'] == f['Rn'] if S.arch < 6 else z3.BoolVal(False)


Enc('MulT1', 'T16', '010000 1101 Rn:3 Rdm:3', family=FAM, unpred=unp_mul_t1,
    sem=mul_sem('Rdm', 'Rn', 'Rdm', lambda S, f: z3.Not(in_it_block(S))))

unp_dnm_t = lambda f, S: badreg(f['Rd'], f['Rn'], f['Rm'])
unp_dnm_a13_t = lambda f, S: z3.Or(badreg(f['Rd'], f['Rn'], f['Rm']), f['Ra'] == 13)
unp_dnma_t = lambda f, S: badreg(f['Rd'], f['Rn'], f['Rm'], f['Ra'])
unp_long_t = lambda f, S: z3.Or(badreg(f['RdLo'], f['RdHi'], f['Rn'], f['Rm']), f['RdHi'] == f['RdLo'])

M32 = '11111 0110 %s Rn %s Rd %s Rm'
Enc('MulT2', 'T32', M32 % ('000', '1111', '0000'), family=FAM, unpred=unp_dnm_t,
    sem=mul_sem('Rd', 'Rn', 'Rm', no_flags))
Enc('MlaT1', 'T32', M32 % ('000', 'Ra', '0000'), family=FAM, guard=ra_not_pc, unpred=unp_dnm_a13_t,
    sem=mla_sem(False, no_flags))
Enc('MlsT1', 'T32', M32 % ('000', 'Ra', '0001'), family=FAM, unpred=unp_dnma_t, sem=mla_sem(True, no_flags))
Enc('SmlaT1', 'T32', M32 % ('001', 'Ra', '00 N M'), family=FAM, guard=ra_not_pc, unpred=unp_dnm_a13_t,
    sem=smlaxy_sem(True))
Enc('SmulT1', 'T32', M32 % ('001', '1111', '00 N M'), family=FAM, unpred=unp_dnm_t, sem=smlaxy_sem(False))
Enc('SmladT1', 'T32', M32 % ('010', 'Ra', '000 M'), family=FAM, guard=ra_not_pc, unpred=unp_dnm_a13_t,
    sem=dual_sem(False, True))
Enc('SmuadT1', 'T32', M32 % ('010', '1111', '000 M'), family=FAM, unpred=unp_dnm_t, sem=dual_sem(False, False))
Enc('SmlawT1', 'T32', M32 % ('011', 'Ra', '000 M'), family=FAM, guard=ra_not_pc, unpred=unp_dnm_a13_t,
    sem=smlawy_sem(True))
Enc('SmulwT1', 'T32', M32 % ('011', '1111', '000 M'), family=FAM, unpred=unp_dnm_t, sem=smlawy_sem(False))
Enc('SmlsdT1', 'T32', M32 % ('100', 'Ra', '000 M'), family=FAM, guard=ra_not_pc, unpred=unp_dnm_a13_t,
    sem=dual_sem(True, True))
Enc('SmusdT1', 'T32', M32 % ('100', '1111', '000 M'), family=FAM, unpred=unp_dnm_t, sem=dual_sem(True, False))
Enc('SmmlaT1', 'T32', M32 % ('101', 'Ra', '000 R'), family=FAM, guard=ra_not_pc, unpred=unp_dnm_a13_t,
    sem=smm_sem('mla'))
Enc('SmmulT1', 'T32', M32 % ('101', '1111', '000 R'), family=FAM, unpred=unp_dnm_t, sem=smm_sem('mul'))
Enc('SmmlsT1', 'T32', M32 % ('110', 'Ra', '000 R'), family=FAM, unpred=unp_dnma_t, sem=smm_sem('mls'))

L32 = '11111 0111 %s Rn RdLo RdHi %s Rm'
Enc('SmullT1', 'T32', L32 % ('000', '0000'), family=FAM, unpred=unp_long_t, sem=long_sem('smull', no_flags))
Enc('UmullT1', 'T32', L32 % ('010', '0000'), family=FAM, unpred=unp_long_t, sem=long_sem('umull', no_flags))
Enc('SmlalT1', 'T32', L32 % ('100', '0000'), family=FAM, unpred=unp_long_t, sem=long_sem('smlal', no_flags))
Enc('SmlalxyT1', 'T32', L32 % ('100', '10 N M'), family=FAM, unpred=unp_long_t, sem=smlalxy_sem)
Enc('SmlaldT1', 'T32', L32 % ('100', '110 M'), family=FAM, unpred=unp_long_t, sem=dual_long_sem(False))
Enc('SmlsldT1', 'T32', L32 % ('101', '110 M'), family=FAM, unpred=unp_long_t, sem=dual_long_sem(True))
Enc('UmlalT1', 'T32', L32 % ('110', '0000'), family=FAM, unpred=unp_long_t, sem=long_sem('umlal', no_flags))
Enc('UmaalT1', 'T32', L32 % ('110', '0110'), family=FAM, unpred=unp_long_t, sem=long_sem('umaal', no_flags))
Enc('SdivT1', 'T32', '11111 0111 001 Rn (1)(1)(1)(1) Rd 1111 Rm', family=FAM, arch=7, unpred=unp_dnm_t,
    sem=div_sem(True))
Enc('UdivT1', 'T32', '11111 0111 011 Rn (1)(1)(1)(1) Rd 1111 Rm', family=FAM, arch=7, unpred=unp_dnm_t,
    sem=div_sem(False))
