"""Instruction table: multiply / multiply-accumulate / divide family.  DDI 0406C A8.8 (A5.2.5, A5.2.7, A5.4.4,
A6.3.16, A6.3.17): MUL MLA MLS UMULL UMLAL UMAAL SMULL SMLAL SMULxy SMLAxy SMULWy SMLAWy SMLALxy SMUAD SMUSD
SMLAD SMLSD SMLALD SMLSLD SMMUL SMMLA SMMLS SDIV UDIV, ARM A1 and Thumb T1/T2."""
import z3

from . import pseudo as P
from .pseudo import BV, bv, bits, bit, zx, sx, cat
from .isa import Enc, any_of, in_it_block
from .state import St, N_, Z_, C_, V_, Q_
from symx import core as X

FAM = 'mul'


# ---- small helpers ----------------------------------------------------------------------------------

def r4(x):
    """register-number field as a 4-bit term (3-bit Thumb fields are zero-extended)"""
    return x if x.size() == 4 else zx(x, 4)


def pc(*xs):
    return z3.Or(*[r4(x) == 15 for x in xs])


def badreg(*xs):
    return z3.Or(*[any_of(r4(x), 13, 15) for x in xs])


# ---- integers of the pseudocode ----------------------------------------------------------------------
# The operation pseudocode of this family computes on unbounded integers (SInt(), UInt(), *, +, <<, x<hi:lo>).
# The oracle transcribes it on the engine's unbounded-integer term type (symx.core.SymInt: a z3 bit-vector of
# adaptive width plus an interval), not on fixed 64-bit vectors: every intermediate term is then normalised by the
# same constructor on both sides, and the solver never has to prove two differently-shaped 32x32 multipliers (or
# dividers) equivalent (which it cannot do within the budget).  Only the *term representation* is shared; the
# sequence of operations below is the manual's.

def UInt(t):
    """bit-vector term -> unsigned integer"""
    return X.U(t)


def SIntN(u, n):
    """signed value of the n-bit string whose unsigned value is the integer u (0 <= u < 2^n)"""
    if type(u) is int:
        return u - (1 << n) if (u >> (n - 1)) & 1 else u
    return X.mk(z3.SignExt(1, X.to_bv(u, n)), -(1 << (n - 1)), (1 << (n - 1)) - 1)


def sl(x, hi, lo):
    """x<hi:lo> of an integer, as an unsigned integer"""
    return (x & ((1 << (hi + 1)) - 1)) >> lo


def low(x, n):
    """x<n-1:0> of an integer, as an unsigned integer"""
    return x % (1 << n)


def Bits(x, n):
    """integer -> n-bit vector term (two's complement, truncating)"""
    return X.to_bv(x, n)


def cbit(f, name):
    """value of a 1-bit field that `split` made concrete"""
    v = z3.simplify(f[name])
    assert z3.is_bv_value(v), name
    return v.as_long()


def split(names, sem):
    """case-split the operation on 1-bit fields (the decoded booleans n_high, m_swap, round, ...): sem sees them as
    constants; the resulting states are merged under the field values"""
    def wrapped(S, f):
        def rec(i, ff):
            if i == len(names):
                T = S.copy()
                sem(T, ff)
                return T
            nm = names[i]
            a = rec(i + 1, dict(ff, **{nm: BV(1, 1)}))
            b = rec(i + 1, dict(ff, **{nm: BV(0, 1)}))
            return St.merge(f[nm] == 1, a, b)
        S.assign(rec(0, dict(f)))
    return wrapped


def ureg(S, n):
    """UInt(R[n])"""
    return UInt(S.reg(n if isinstance(n, int) else r4(n)))


def sreg(S, n):
    """SInt(R[n])"""
    return SIntN(ureg(S, n), 32)


def set_q_if(S, ov):
    S.set_cbit(Q_, z3.Or(S.cbit(Q_), X.tobool(ov)))


def flags_nz(S, sf, result):
    """if setflags: N = result<top>, Z = IsZeroBit(result); C (and V) unchanged from ARMv5 on; UNKNOWN on ARMv4"""
    if isinstance(sf, bool):
        sf = z3.BoolVal(sf)
    if S.arch < 5:
        S.unpredictable(sf)  # C / V are UNKNOWN: outside the claim
    T = S.copy()
    T.set_nz(result)
    S.assign(St.merge(sf, T, S))


def S_field(S, f):
    return f['S'] == 1


def no_flags(S, f):
    return False


# ---- operations -------------------------------------------------------------------------------------

def mul_sem(d, n, m, setflags):
    def sem(S, f):
        result = sreg(S, f[n]) * sreg(S, f[m])
        sf = setflags(S, f)
        r32 = Bits(low(result, 32), 32)
        S.set_reg(r4(f[d]), r32)
        flags_nz(S, sf, r32)
    return sem


def mla_sem(sub, setflags):
    def sem(S, f):
        operand1, operand2, addend = sreg(S, f['Rn']), sreg(S, f['Rm']), sreg(S, f['Ra'])
        result = addend - operand1 * operand2 if sub else operand1 * operand2 + addend
        sf = setflags(S, f)
        r32 = Bits(low(result, 32), 32)
        S.set_reg(f['Rd'], r32)
        flags_nz(S, sf, r32)
    return sem


def write_long(S, f, result, setflags):
    """R[dHi] = result<63:32>; R[dLo] = result<31:0>; flags from result<63:0>"""
    sf = setflags(S, f)
    r64 = low(result, 64)
    S.set_reg(f['RdHi'], Bits(sl(r64, 63, 32), 32))
    S.set_reg(f['RdLo'], Bits(sl(r64, 31, 0), 32))
    flags_nz(S, sf, Bits(r64, 64))


def acc64(S, f):
    """UInt(R[dHi]:R[dLo])"""
    return (ureg(S, f['RdHi']) << 32) | ureg(S, f['RdLo'])


def long_sem(kind, setflags):
    """kind: umull umlal umaal smull smlal"""
    def sem(S, f):
        if kind == 'umull':
            result = ureg(S, f['Rn']) * ureg(S, f['Rm'])
        elif kind == 'umlal':
            result = ureg(S, f['Rn']) * ureg(S, f['Rm']) + acc64(S, f)
        elif kind == 'umaal':
            result = ureg(S, f['Rn']) * ureg(S, f['Rm']) + ureg(S, f['RdHi']) + ureg(S, f['RdLo'])
        elif kind == 'smull':
            result = sreg(S, f['Rn']) * sreg(S, f['Rm'])
        elif kind == 'smlal':
            result = sreg(S, f['Rn']) * sreg(S, f['Rm']) + SIntN(acc64(S, f), 64)
        else:
            raise AssertionError(kind)
        write_long(S, f, result, setflags)
    return sem


def half_operand(S, f, reg, sel):
    x = ureg(S, f[reg])
    return SIntN(sl(x, 31, 16) if cbit(f, sel) else sl(x, 15, 0), 16)


def smlaxy_sem(acc):
    """SMULxy / SMLAxy"""
    def sem(S, f):
        operand1 = half_operand(S, f, 'Rn', 'N')
        operand2 = half_operand(S, f, 'Rm', 'M')
        result = operand1 * operand2
        if acc:
            result = result + sreg(S, f['Ra'])
        out = low(result, 32)
        S.set_reg(f['Rd'], Bits(out, 32))
        if acc:
            set_q_if(S, result != SIntN(out, 32))
    return split(['N', 'M'], sem)


def smlawy_sem(acc):
    """SMULWy / SMLAWy"""
    def sem(S, f):
        operand2 = half_operand(S, f, 'Rm', 'M')
        result = sreg(S, f['Rn']) * operand2
        if acc:
            result = result + (sreg(S, f['Ra']) << 16)
        out = sl(low(result, 48), 47, 16)
        S.set_reg(f['Rd'], Bits(out, 32))
        if acc:
            set_q_if(S, (result >> 16) != SIntN(out, 32))
    return split(['M'], sem)


def smlalxy_sem_(S, f):
    operand1 = half_operand(S, f, 'Rn', 'N')
    operand2 = half_operand(S, f, 'Rm', 'M')
    result = operand1 * operand2 + SIntN(acc64(S, f), 64)
    write_long(S, f, result, no_flags)


smlalxy_sem = split(['N', 'M'], smlalxy_sem_)


def ror16(x):
    """ROR(x, 16) of a 32-bit value given as unsigned integer: LSR(x, 16) OR LSL(x, 16)"""
    return (x >> 16) | low(x << 16, 32)


def dual_products(S, f):
    rm = ureg(S, f['Rm'])
    operand2 = ror16(rm) if cbit(f, 'M') else rm
    rn = ureg(S, f['Rn'])
    product1 = SIntN(sl(rn, 15, 0), 16) * SIntN(sl(operand2, 15, 0), 16)
    product2 = SIntN(sl(rn, 31, 16), 16) * SIntN(sl(operand2, 31, 16), 16)
    return product1, product2


def dual_sem(sub, acc):
    """SMUAD SMUSD SMLAD SMLSD"""
    def sem(S, f):
        product1, product2 = dual_products(S, f)
        result = product1 - product2 if sub else product1 + product2
        if acc:
            result = result + sreg(S, f['Ra'])
        out = low(result, 32)
        S.set_reg(f['Rd'], Bits(out, 32))
        if acc or not sub:  # SMUSD cannot overflow (and its pseudocode does not touch Q)
            set_q_if(S, result != SIntN(out, 32))
    return split(['M'], sem)


def dual_long_sem(sub):
    """SMLALD SMLSLD"""
    def sem(S, f):
        product1, product2 = dual_products(S, f)
        result = (product1 - product2 if sub else product1 + product2) + SIntN(acc64(S, f), 64)
        write_long(S, f, result, no_flags)
    return split(['M'], sem)


def smm_sem(kind):
    """SMMUL SMMLA SMMLS"""
    def sem(S, f):
        if kind == 'mul':
            result = sreg(S, f['Rn']) * sreg(S, f['Rm'])
        elif kind == 'mla':
            result = (sreg(S, f['Ra']) << 32) + sreg(S, f['Rn']) * sreg(S, f['Rm'])
        else:
            result = (sreg(S, f['Ra']) << 32) - sreg(S, f['Rn']) * sreg(S, f['Rm'])
        if cbit(f, 'R'):
            result = result + 0x80000000
        S.set_reg(f['Rd'], Bits(sl(low(result, 64), 63, 32), 32))
    return split(['R'], sem)


def div_sem(signed):
    """SDIV / UDIV: RoundTowardsZero(n / m); divisor zero -> 0 (IntegerZeroDivideTrappingEnabled() is FALSE: it needs
    the ARMv7-R profile with SCTLR.DZ == 1, the configuration under test is not R profile)"""
    def sem(S, f):
        n = sreg(S, f['Rn']) if signed else ureg(S, f['Rn'])
        m = sreg(S, f['Rm']) if signed else ureg(S, f['Rm'])
        if type(m) is int and m == 0:
            S.set_reg(f['Rd'], BV(0, 32))
            return
        q = X.exact_div(n, m, floor=False)  # exact quotient rounded toward zero (value irrelevant when m == 0)
        S.set_reg(f['Rd'], z3.If(S.reg(f['Rm']) == 0, BV(0, 32), Bits(low(q, 32), 32)))
    return sem


# ===========================================================================================================
# ARM
# ===========================================================================================================

def unp_mul_a(f, S):
    u = pc(f['Rd'], f['Rn'], f['Rm'])
    if S.arch < 6:
        u = z3.Or(u, f['Rd'] == f['Rn'])
    return u


def unp_mla_a(f, S):
    u = pc(f['Rd'], f['Rn'], f['Rm'], f['Ra'])
    if S.arch < 6:
        u = z3.Or(u, f['Rd'] == f['Rn'])
    return u


def unp_long_a(f, S):
    u = z3.Or(pc(f['RdLo'], f['RdHi'], f['Rn'], f['Rm']), f['RdHi'] == f['RdLo'])
    if S.arch < 6:
        u = z3.Or(u, f['RdHi'] == f['Rn'], f['RdLo'] == f['Rn'])
    return u


def unp_long_nov4(f, S):
    return z3.Or(pc(f['RdLo'], f['RdHi'], f['Rn'], f['Rm']), f['RdHi'] == f['RdLo'])


unp_dnm_a = lambda f, S: pc(f['Rd'], f['Rn'], f['Rm'])
unp_dnma_a = lambda f, S: pc(f['Rd'], f['Rn'], f['Rm'], f['Ra'])
ra_not_pc = lambda f: f['Ra'] != 15

Enc('MulA1', 'A', 'cond 0000000 S Rd (0)(0)(0)(0) Rm 1001 Rn', family=FAM, unpred=unp_mul_a,
    sem=mul_sem('Rd', 'Rn', 'Rm', S_field))
Enc('MlaA1', 'A', 'cond 0000001 S Rd Ra Rm 1001 Rn', family=FAM, unpred=unp_mla_a, sem=mla_sem(False, S_field))
Enc('UmaalA1', 'A', 'cond 00000100 RdHi RdLo Rm 1001 Rn', family=FAM, arch=6, unpred=unp_long_nov4,
    sem=long_sem('umaal', no_flags))
Enc('MlsA1', 'A', 'cond 00000110 Rd Ra Rm 1001 Rn', family=FAM, arch=6, unpred=unp_dnma_a,
    sem=mla_sem(True, no_flags))
for _k, _code in (('umull', '100'), ('umlal', '101'), ('smull', '110'), ('smlal', '111')):
    Enc(_k.capitalize() + 'A1', 'A', 'cond 0000%s S RdHi RdLo Rm 1001 Rn' % _code, family=FAM, unpred=unp_long_a,
        sem=long_sem(_k, S_field))

# halfword multiplies (ARMv5TE)
Enc('SmlaA1', 'A', 'cond 00010000 Rd Ra Rm 1 M N 0 Rn', family=FAM, arch=5, unpred=unp_dnma_a, sem=smlaxy_sem(True))
Enc('SmlawA1', 'A', 'cond 00010010 Rd Ra Rm 1 M 0 0 Rn', family=FAM, arch=5, unpred=unp_dnma_a,
    sem=smlawy_sem(True))
Enc('SmulwA1', 'A', 'cond 00010010 Rd (0)(0)(0)(0) Rm 1 M 1 0 Rn', family=FAM, arch=5, unpred=unp_dnm_a,
    sem=smlawy_sem(False))
Enc('SmlalxyA1', 'A', 'cond 00010100 RdHi RdLo Rm 1 M N 0 Rn', family=FAM, arch=5, unpred=unp_long_nov4,
    sem=smlalxy_sem)
Enc('SmulA1', 'A', 'cond 00010110 Rd (0)(0)(0)(0) Rm 1 M N 0 Rn', family=FAM, arch=5, unpred=unp_dnm_a,
    sem=smlaxy_sem(False))

# signed multiplies (ARMv6), divides
Enc('SmladA1', 'A', 'cond 01110000 Rd Ra Rm 00 M 1 Rn', family=FAM, arch=6, guard=ra_not_pc, unpred=unp_dnm_a,
    sem=dual_sem(False, True))
Enc('SmuadA1', 'A', 'cond 01110000 Rd 1111 Rm 00 M 1 Rn', family=FAM, arch=6, unpred=unp_dnm_a,
    sem=dual_sem(False, False))
Enc('SmlsdA1', 'A', 'cond 01110000 Rd Ra Rm 01 M 1 Rn', family=FAM, arch=6, guard=ra_not_pc, unpred=unp_dnm_a,
    sem=dual_sem(True, True))
Enc('SmusdA1', 'A', 'cond 01110000 Rd 1111 Rm 01 M 1 Rn', family=FAM, arch=6, unpred=unp_dnm_a,
    sem=dual_sem(True, False))
Enc('SdivA1', 'A', 'cond 01110001 Rd (1)(1)(1)(1) Rm 000 1 Rn', family=FAM, arch=7, unpred=unp_dnm_a,
    sem=div_sem(True))
Enc('UdivA1', 'A', 'cond 01110011 Rd (1)(1)(1)(1) Rm 000 1 Rn', family=FAM, arch=7, unpred=unp_dnm_a,
    sem=div_sem(False))
Enc('SmlaldA1', 'A', 'cond 01110100 RdHi RdLo Rm 00 M 1 Rn', family=FAM, arch=6, unpred=unp_long_nov4,
    sem=dual_long_sem(False))
Enc('SmlsldA1', 'A', 'cond 01110100 RdHi RdLo Rm 01 M 1 Rn', family=FAM, arch=6, unpred=unp_long_nov4,
    sem=dual_long_sem(True))
Enc('SmmlaA1', 'A', 'cond 01110101 Rd Ra Rm 00 R 1 Rn', family=FAM, arch=6, guard=ra_not_pc, unpred=unp_dnm_a,
    sem=smm_sem('mla'))
Enc('SmmulA1', 'A', 'cond 01110101 Rd 1111 Rm 00 R 1 Rn', family=FAM, arch=6, unpred=unp_dnm_a, sem=smm_sem('mul'))
Enc('SmmlsA1', 'A', 'cond 01110101 Rd Ra Rm 11 R 1 Rn', family=FAM, arch=6, unpred=unp_dnma_a, sem=smm_sem('mls'))

# ===========================================================================================================
# Thumb
# ===========================================================================================================

def unp_mul_t1(f, S):
    # d == n is only UNPREDICTABLE before ARMv6; here d = m = Rdm
    return f['Rdm'] == f['Rn'] if S.arch < 6 else z3.BoolVal(False)


Enc('MulT1', 'T16', '010000 1101 Rn:3 Rdm:3', family=FAM, unpred=unp_mul_t1,
    sem=mul_sem('Rdm', 'Rn', 'Rdm', lambda S, f: z3.Not(in_it_block(S))))

unp_dnm_t = lambda f, S: badreg(f['Rd'], f['Rn'], f['Rm'])
unp_dnm_a13_t = lambda f, S: z3.Or(badreg(f['Rd'], f['Rn'], f['Rm']), f['Ra'] == 13)
unp_dnma_t = lambda f, S: badreg(f['Rd'], f['Rn'], f['Rm'], f['Ra'])
unp_long_t = lambda f, S: z3.Or(badreg(f['RdLo'], f['RdHi'], f['Rn'], f['Rm']), f['RdHi'] == f['RdLo'])

M32 = '11111 0110 %s Rn %s Rd %s Rm'
Enc('MulT2', 'T32', M32 % ('000', '1111', '0000'), family=FAM, unpred=unp_dnm_t,
    sem=mul_sem('Rd', 'Rn', 'Rm', no_flags))
Enc('MlaT1', 'T32', M32 % ('000', 'Ra', '0000'), family=FAM, guard=ra_not_pc, unpred=unp_dnm_a13_t,
    sem=mla_sem(False, no_flags))
Enc('MlsT1', 'T32', M32 % ('000', 'Ra', '0001'), family=FAM, unpred=unp_dnma_t, sem=mla_sem(True, no_flags))
Enc('SmlaT1', 'T32', M32 % ('001', 'Ra', '00 N M'), family=FAM, guard=ra_not_pc, unpred=unp_dnm_a13_t,
    sem=smlaxy_sem(True))
Enc('SmulT1', 'T32', M32 % ('001', '1111', '00 N M'), family=FAM, unpred=unp_dnm_t, sem=smlaxy_sem(False))
Enc('SmladT1', 'T32', M32 % ('010', 'Ra', '000 M'), family=FAM, guard=ra_not_pc, unpred=unp_dnm_a13_t,
    sem=dual_sem(False, True))
Enc('SmuadT1', 'T32', M32 % ('010', '1111', '000 M'), family=FAM, unpred=unp_dnm_t, sem=dual_sem(False, False))
Enc('SmlawT1', 'T32', M32 % ('011', 'Ra', '000 M'), family=FAM, guard=ra_not_pc, unpred=unp_dnm_a13_t,
    sem=smlawy_sem(True))
Enc('SmulwT1', 'T32', M32 % ('011', '1111', '000 M'), family=FAM, unpred=unp_dnm_t, sem=smlawy_sem(False))
Enc('SmlsdT1', 'T32', M32 % ('100', 'Ra', '000 M'), family=FAM, guard=ra_not_pc, unpred=unp_dnm_a13_t,
    sem=dual_sem(True, True))
Enc('SmusdT1', 'T32', M32 % ('100', '1111', '000 M'), family=FAM, unpred=unp_dnm_t, sem=dual_sem(True, False))
Enc('SmmlaT1', 'T32', M32 % ('101', 'Ra', '000 R'), family=FAM, guard=ra_not_pc, unpred=unp_dnm_a13_t,
    sem=smm_sem('mla'))
Enc('SmmulT1', 'T32', M32 % ('101', '1111', '000 R'), family=FAM, unpred=unp_dnm_t, sem=smm_sem('mul'))
Enc('SmmlsT1', 'T32', M32 % ('110', 'Ra', '000 R'), family=FAM, unpred=unp_dnma_t, sem=smm_sem('mls'))

L32 = '11111 0111 %s Rn RdLo RdHi %s Rm'
Enc('SmullT1', 'T32', L32 % ('000', '0000'), family=FAM, unpred=unp_long_t, sem=long_sem('smull', no_flags))
Enc('UmullT1', 'T32', L32 % ('010', '0000'), family=FAM, unpred=unp_long_t, sem=long_sem('umull', no_flags))
Enc('SmlalT1', 'T32', L32 % ('100', '0000'), family=FAM, unpred=unp_long_t, sem=long_sem('smlal', no_flags))
Enc('SmlalxyT1', 'T32', L32 % ('100', '10 N M'), family=FAM, unpred=unp_long_t, sem=smlalxy_sem)
Enc('SmlaldT1', 'T32', L32 % ('100', '110 M'), family=FAM, unpred=unp_long_t, sem=dual_long_sem(False))
Enc('SmlsldT1', 'T32', L32 % ('101', '110 M'), family=FAM, unpred=unp_long_t, sem=dual_long_sem(True))
Enc('UmlalT1', 'T32', L32 % ('110', '0000'), family=FAM, unpred=unp_long_t, sem=long_sem('umlal', no_flags))
Enc('UmaalT1', 'T32', L32 % ('110', '0110'), family=FAM, unpred=unp_long_t, sem=long_sem('umaal', no_flags))
Enc('SdivT1', 'T32', '11111 0111 001 Rn (1)(1)(1)(1) Rd 1111 Rm', family=FAM, arch=7, unpred=unp_dnm_t,
    sem=div_sem(True))
Enc('UdivT1', 'T32', '11111 0111 011 Rn (1)(1)(1)(1) Rd 1111 Rm', family=FAM, arch=7, unpred=unp_dnm_t,
    sem=div_sem(False))
