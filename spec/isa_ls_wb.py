"""Instruction table: single-register word/byte loads and stores (family ls_word_byte).  DDI 0406C A8.8:
LDR / STR / LDRB / STRB (immediate, literal, register; ARM A1, Thumb T1..T4) and the unprivileged
LDRT / STRT / LDRBT / STRBT (A1, A2, T1).

LdrImmediateArmA1 and StrImmediateArmA1 live in isa_ls.py (exemplar rows) and are not redefined here.

Modelling notes
* MemU_unpriv is modelled as MemU: the units run with the MPU/MMU disabled, where the privilege of the access
  cannot change the outcome (no permission checks; alignment checking does not depend on privilege).
* Data aborts arise only from alignment checking (isa.mem_u_read / mem_u_write).
* "bits(32) UNKNOWN" results (Thumb LDR/STR of an unaligned word before ARMv7 without unaligned support) are
  excluded through S.unpredictable(...): no claim is made for a value the architecture leaves unknown.
"""
import z3

from . import pseudo as P
from .pseudo import BV, bv, bits, zx, cat
from .isa import (Enc, any_of, in_it_block, last_in_it_block, mem_u_read, mem_u_write, unaligned_support, aborted, _b)
from .state import St, C_

FAM = 'ls_wb'


# ---------------------------------------------------------------------------
# operation
# ---------------------------------------------------------------------------

def load_word(S, t, data, address, ok):
    """the tail of LDR / LDRT: R[t] = data with the t == 15 (LoadWritePC) and the rotated / UNKNOWN cases.
    t: int or 4-bit term; ok: Bool (no abort so far)"""
    tt = BV(t, 4) if isinstance(t, int) else bv(t, 4)
    al = bits(address, 1, 0) == 0
    plain = z3.Or(unaligned_support(S), al)
    if S.thumb:
        val = data
        S.unpredictable(z3.And(ok, tt != 15, z3.Not(plain)))  # R[t] = bits(32) UNKNOWN
    else:
        # ROR(data, 8*UInt(address<1:0>)) written as in A2.2.1: LSR(x, m) OR LSL(x, N-m)
        m = zx(bits(address, 1, 0), 32) * 8
        val = z3.If(plain, data, z3.LShR(data, m) | (data << (BV(32, 32) - m)))
    T = S.copy()
    T.unpredictable(z3.Not(al))
    T.load_write_pc(data)
    N = S.copy()
    N.set_reg(tt, val, guard=z3.And(ok, tt != 15))
    S.assign(St.merge(z3.And(ok, tt == 15), T, N))


def ls_sem(load, size, n, t, offset, index=True, add=True, wback=False, literal=False, unpriv=False):
    """generic single load/store.  n, t: f -> register number (int or 4-bit term); offset: (S, f) -> 32-bit term;
    index/add/wback: python bool or f -> Bool"""
    def flag(x, f):
        return _b(x(f) if callable(x) else x)

    def sem(S, f):
        tt = t(f)
        if unpriv:
            S.unpriv_access = True  # MemU_unpriv: User permissions whatever the mode
        if unpriv and S.have_virt:
            S.unpredictable(S.is_mode('hyp'))
        if literal:
            nn = None
            base = S.pc_read() & BV(0xFFFFFFFC, 32)  # Align(PC, 4)
        else:
            nn = n(f)
            base = S.reg(nn)
        off = offset(S, f)
        offset_addr = z3.If(flag(add, f), base + off, base - off)
        address = z3.If(flag(index, f), offset_addr, base)
        wb = flag(wback, f)

        def do_wback():
            if nn is None or z3.is_false(z3.simplify(wb)):
                return
            g = z3.And(z3.Not(aborted(S)), wb)
            if not isinstance(nn, int):
                g = z3.And(g, nn != 15)
            S.set_reg(nn, offset_addr, guard=g)

        if load:
            data = mem_u_read(S, address, size)
            ok = z3.Not(aborted(S))
            do_wback()
            if size == 4:
                load_word(S, tt, data, address, ok)
            else:
                g = ok if isinstance(tt, int) else z3.And(ok, tt != 15)
                S.set_reg(tt, zx(data, 32), guard=g)
        else:
            value = S.reg(tt)  # t == 15 (ARM only): PCStoreValue() = R[15]
            if size == 4:
                if S.thumb:
                    plain = z3.Or(unaligned_support(S), bits(address, 1, 0) == 0)
                    # MemU[address,4] = bits(32) UNKNOWN (only when the access does not fault)
                    S.unpredictable(z3.And(z3.Not(plain), z3.Not(S.mem_u_fault(address, 4))))
                mem_u_write(S, address, 4, value)
            else:
                mem_u_write(S, address, 1, bits(value, 7, 0))
            do_wback()
    return sem


# ---- field helpers -----------------------------------------------------------

def fld(name):
    return lambda f: f[name]


def r3(name):
    return lambda f: zx(f[name], 4)


def const(v):
    return lambda f: v


def imm(name, shift=0):
    def g(S, f):
        x = f[name]
        if shift:
            x = cat(x, BV(0, shift))
        return zx(x, 32)
    return g


def off_reg_arm(S, f):
    kind, amount = P.decode_imm_shift(f['type'], f['imm5'])
    return P.shift_c(S.reg(f['Rm']), kind, amount, S.cbit(C_))[0]


def off_reg_t16(S, f):
    return S.reg(zx(f['Rm'], 4))


def off_reg_t32(S, f):
    return S.reg(f['Rm']) << zx(f['imm2'], 32)  # Shift(R[m], SRType_LSL, UInt(imm2))


def P_(f):
    return f['P'] == 1


def U_(f):
    return f['U'] == 1


def wback_(f):
    return z3.Or(f['P'] == 0, f['W'] == 1)


def badreg(x):
    return any_of(x, 13, 15)


def not_unpriv_arm(f):
    return z3.Not(z3.And(f['P'] == 0, f['W'] == 1))


def not_unpriv_thumb(f):
    return z3.Not(z3.And(f['P'] == 1, f['U'] == 1, f['W'] == 0))


def pc_not_last_in_it(f, S, t='Rt'):
    """t == 15 && InITBlock() && !LastInITBlock()"""
    return z3.And(f[t] == 15, in_it_block(S), z3.Not(last_in_it_block(S)))


def pre6_m_eq_n(f, S, wb=True):
    """ArchVersion() < 6 && wback && m == n"""
    if S.arch >= 6:
        return z3.BoolVal(False)
    return z3.And(_b(wb), f['Rm'] == f['Rn'])


# ===========================================================================
# ARM
# ===========================================================================
PUW = dict(index=P_, add=U_, wback=wback_)

# LDR (literal) A1: bits 24 and 21 are (1) and (0)
Enc('LdrLiteralA1', 'A', 'cond 010 (1) U 0 (0) 1 1111 Rt imm12', family=FAM,
    sem=ls_sem(True, 4, None, fld('Rt'), imm('imm12'), add=U_, literal=True))
Enc('LdrbLiteralA1', 'A', 'cond 010 (1) U 1 (0) 1 1111 Rt imm12', family=FAM,
    unpred=lambda f, S: f['Rt'] == 15,
    sem=ls_sem(True, 1, None, fld('Rt'), imm('imm12'), add=U_, literal=True))

Enc('LdrRegisterArmA1', 'A', 'cond 011 P U 0 W 1 Rn Rt imm5 type 0 Rm', family=FAM, guard=not_unpriv_arm,
    unpred=lambda f, S: z3.Or(f['Rm'] == 15, z3.And(wback_(f), z3.Or(f['Rn'] == 15, f['Rn'] == f['Rt'])),
                              pre6_m_eq_n(f, S, wback_(f))),
    sem=ls_sem(True, 4, fld('Rn'), fld('Rt'), off_reg_arm, **PUW))
Enc('StrRegisterA1', 'A', 'cond 011 P U 0 W 0 Rn Rt imm5 type 0 Rm', family=FAM, guard=not_unpriv_arm,
    unpred=lambda f, S: z3.Or(f['Rm'] == 15, z3.And(wback_(f), z3.Or(f['Rn'] == 15, f['Rn'] == f['Rt'])),
                              pre6_m_eq_n(f, S, wback_(f))),
    sem=ls_sem(False, 4, fld('Rn'), fld('Rt'), off_reg_arm, **PUW))

Enc('LdrbImmediateArmA1', 'A', 'cond 010 P U 1 W 1 Rn Rt imm12', family=FAM,
    guard=lambda f: z3.And(f['Rn'] != 15, not_unpriv_arm(f)),
    unpred=lambda f, S: z3.Or(f['Rt'] == 15, z3.And(wback_(f), f['Rn'] == f['Rt'])),
    sem=ls_sem(True, 1, fld('Rn'), fld('Rt'), imm('imm12'), **PUW))
Enc('StrbImmediateArmA1', 'A', 'cond 010 P U 1 W 0 Rn Rt imm12', family=FAM, guard=not_unpriv_arm,
    unpred=lambda f, S: z3.Or(f['Rt'] == 15, z3.And(wback_(f), z3.Or(f['Rn'] == 15, f['Rn'] == f['Rt']))),
    sem=ls_sem(False, 1, fld('Rn'), fld('Rt'), imm('imm12'), **PUW))
Enc('LdrbRegisterA1', 'A', 'cond 011 P U 1 W 1 Rn Rt imm5 type 0 Rm', family=FAM, guard=not_unpriv_arm,
    unpred=lambda f, S: z3.Or(f['Rt'] == 15, f['Rm'] == 15,
                              z3.And(wback_(f), z3.Or(f['Rn'] == 15, f['Rn'] == f['Rt'])),
                              pre6_m_eq_n(f, S, wback_(f))),
    sem=ls_sem(True, 1, fld('Rn'), fld('Rt'), off_reg_arm, **PUW))
Enc('StrbRegisterA1', 'A', 'cond 011 P U 1 W 0 Rn Rt imm5 type 0 Rm', family=FAM, guard=not_unpriv_arm,
    unpred=lambda f, S: z3.Or(f['Rt'] == 15, f['Rm'] == 15,
                              z3.And(wback_(f), z3.Or(f['Rn'] == 15, f['Rn'] == f['Rt'])),
                              pre6_m_eq_n(f, S, wback_(f))),
    sem=ls_sem(False, 1, fld('Rn'), fld('Rt'), off_reg_arm, **PUW))

# unprivileged, ARM: post-indexed always (A1 immediate, A2 register)
POST = dict(index=False, add=U_, wback=True, unpriv=True)
for name, load, size, code, t_pc_ok in (('Ldrt', True, 4, '011', False), ('Strt', False, 4, '010', True),
                                        ('Ldrbt', True, 1, '111', False), ('Strbt', False, 1, '110', False)):
    def unp_a1(f, S, t_pc_ok=t_pc_ok):
        u = z3.Or(f['Rn'] == 15, f['Rn'] == f['Rt'])
        return u if t_pc_ok else z3.Or(u, f['Rt'] == 15)

    def unp_a2(f, S, t_pc_ok=t_pc_ok):
        return z3.Or(unp_a1(f, S), f['Rm'] == 15, pre6_m_eq_n(f, S))
    Enc(name + 'A1', 'A', 'cond 0100 U %s Rn Rt imm12' % code, family=FAM, unpred=unp_a1,
        sem=ls_sem(load, size, fld('Rn'), fld('Rt'), imm('imm12'), **POST))
    Enc(name + 'A2', 'A', 'cond 0110 U %s Rn Rt imm5 type 0 Rm' % code, family=FAM, unpred=unp_a2,
        sem=ls_sem(load, size, fld('Rn'), fld('Rt'), off_reg_arm, **POST))

# ===========================================================================
# Thumb 16-bit
# ===========================================================================
for name, load, size, opc, sh in (('StrImmediateThumbT1', False, 4, '011 0 0', 2),
                                  ('LdrImmediateThumbT1', True, 4, '011 0 1', 2),
                                  ('StrbImmediateThumbT1', False, 1, '011 1 0', 0),
                                  ('LdrbImmediateThumbT1', True, 1, '011 1 1', 0)):
    Enc(name, 'T16', '%s imm5 Rn:3 Rt:3' % opc, family=FAM,
        sem=ls_sem(load, size, r3('Rn'), r3('Rt'), imm('imm5', sh)))
Enc('StrImmediateThumbT2', 'T16', '1001 0 Rt:3 imm8', family=FAM,
    sem=ls_sem(False, 4, const(13), r3('Rt'), imm('imm8', 2)))
Enc('LdrImmediateThumbT2', 'T16', '1001 1 Rt:3 imm8', family=FAM,
    sem=ls_sem(True, 4, const(13), r3('Rt'), imm('imm8', 2)))
Enc('LdrLiteralT1', 'T16', '01001 Rt:3 imm8', family=FAM,
    sem=ls_sem(True, 4, None, r3('Rt'), imm('imm8', 2), literal=True))
for name, load, size, opc in (('StrRegisterT1', False, 4, '000'), ('StrbRegisterT1', False, 1, '010'),
                              ('LdrRegisterThumbT1', True, 4, '100'), ('LdrbRegisterT1', True, 1, '110')):
    Enc(name, 'T16', '0101 %s Rm:3 Rn:3 Rt:3' % opc, family=FAM,
        sem=ls_sem(load, size, r3('Rn'), r3('Rt'), off_reg_t16))

# ===========================================================================
# Thumb 32-bit
# ===========================================================================
# The "1 P U W imm8" forms with P == 0 && W == 0 are UNDEFINED by the encoding's pseudocode.  The repository's
# Thumb decode tables treat that pattern as unallocated (no class is selected; the Undefined Instruction exception
# is taken by the dispatcher), so the H-step claim "decoder selects <class>" cannot hold there.  The pattern is
# therefore kept out of the class rows (guard) and checked by the auxiliary rows <class>_P0W0 (family
# 'ls_wb_undef'), to be run with '"expect_class": false'.
FAM_UND = 'ls_wb_undef'


def not_p0w0(f):
    return z3.Not(z3.And(f['P'] == 0, f['W'] == 0))


def undef_p0w0_row(name, diagram):
    """the P == 0 && W == 0 pattern of a '1 P U W imm8' encoding: UNDEFINED (loads: unless Rn == 1111, which is
    the literal form and has no such pattern)"""
    Enc(name + '_P0W0', 'T32', diagram.replace(' P U W ', ' 0 U 0 '), family=FAM_UND,
        guard=(lambda f: f['Rn'] != 15) if diagram.split()[5] == '1' else None,
        undefined=lambda f, S: True, sem=lambda S, f: None,
        notes='run with expect_class=false: the decoder selects no class for this pattern')


# --- LDR
Enc('LdrImmediateThumbT3', 'T32', '11111 000 1 1 0 1 Rn Rt imm12', family=FAM, guard=lambda f: f['Rn'] != 15,
    unpred=lambda f, S: pc_not_last_in_it(f, S),
    sem=ls_sem(True, 4, fld('Rn'), fld('Rt'), imm('imm12')))
Enc('LdrImmediateThumbT4', 'T32', '11111 000 0 1 0 1 Rn Rt 1 P U W imm8', family=FAM,
    guard=lambda f: z3.And(f['Rn'] != 15, not_unpriv_thumb(f), not_p0w0(f),
                           z3.Not(z3.And(f['Rn'] == 13, f['P'] == 0, f['U'] == 1, f['W'] == 1, f['imm8'] == 4))),
    unpred=lambda f, S: z3.Or(z3.And(f['W'] == 1, f['Rn'] == f['Rt']), pc_not_last_in_it(f, S)),
    sem=ls_sem(True, 4, fld('Rn'), fld('Rt'), imm('imm8'), index=P_, add=U_, wback=lambda f: f['W'] == 1))
Enc('LdrLiteralT2', 'T32', '11111 000 U 1 0 1 1111 Rt imm12', family=FAM,
    unpred=lambda f, S: pc_not_last_in_it(f, S),
    sem=ls_sem(True, 4, None, fld('Rt'), imm('imm12'), add=U_, literal=True))
Enc('LdrRegisterThumbT2', 'T32', '11111 000 0 1 0 1 Rn Rt 0 00000 imm2 Rm', family=FAM,
    guard=lambda f: f['Rn'] != 15,
    unpred=lambda f, S: z3.Or(badreg(f['Rm']), pc_not_last_in_it(f, S)),
    sem=ls_sem(True, 4, fld('Rn'), fld('Rt'), off_reg_t32))
Enc('LdrtT1', 'T32', '11111 000 0 1 0 1 Rn Rt 1 110 imm8', family=FAM, guard=lambda f: f['Rn'] != 15,
    unpred=lambda f, S: badreg(f['Rt']),
    sem=ls_sem(True, 4, fld('Rn'), fld('Rt'), imm('imm8'), unpriv=True))

# --- LDRB  (Rt == 1111 is the PLD / PLDW / PLI space)
Enc('LdrbImmediateThumbT2', 'T32', '11111 000 1 0 0 1 Rn Rt imm12', family=FAM,
    guard=lambda f: z3.And(f['Rt'] != 15, f['Rn'] != 15),
    unpred=lambda f, S: f['Rt'] == 13,
    sem=ls_sem(True, 1, fld('Rn'), fld('Rt'), imm('imm12')))
Enc('LdrbImmediateThumbT3', 'T32', '11111 000 0 0 0 1 Rn Rt 1 P U W imm8', family=FAM,
    guard=lambda f: z3.And(z3.Not(z3.And(f['Rt'] == 15, f['P'] == 1, f['U'] == 0, f['W'] == 0)), f['Rn'] != 15,
                           not_unpriv_thumb(f), not_p0w0(f)),
    unpred=lambda f, S: z3.Or(f['Rt'] == 13, z3.And(f['Rt'] == 15, f['W'] == 1),
                              z3.And(f['W'] == 1, f['Rn'] == f['Rt'])),
    sem=ls_sem(True, 1, fld('Rn'), fld('Rt'), imm('imm8'), index=P_, add=U_, wback=lambda f: f['W'] == 1))
Enc('LdrbLiteralT1', 'T32', '11111 000 U 0 0 1 1111 Rt imm12', family=FAM, guard=lambda f: f['Rt'] != 15,
    unpred=lambda f, S: f['Rt'] == 13,
    sem=ls_sem(True, 1, None, fld('Rt'), imm('imm12'), add=U_, literal=True))
Enc('LdrbRegisterT2', 'T32', '11111 000 0 0 0 1 Rn Rt 0 00000 imm2 Rm', family=FAM,
    guard=lambda f: z3.And(f['Rt'] != 15, f['Rn'] != 15),
    unpred=lambda f, S: z3.Or(f['Rt'] == 13, badreg(f['Rm'])),
    sem=ls_sem(True, 1, fld('Rn'), fld('Rt'), off_reg_t32))
Enc('LdrbtT1', 'T32', '11111 000 0 0 0 1 Rn Rt 1 110 imm8', family=FAM, guard=lambda f: f['Rn'] != 15,
    unpred=lambda f, S: badreg(f['Rt']),
    sem=ls_sem(True, 1, fld('Rn'), fld('Rt'), imm('imm8'), unpriv=True))

# --- STR / STRB   (Rn == 1111 is UNDEFINED)
und_rn_pc = lambda f, S: f['Rn'] == 15

Enc('StrImmediateThumbT3', 'T32', '11111 000 1 1 0 0 Rn Rt imm12', family=FAM, undefined=und_rn_pc,
    unpred=lambda f, S: f['Rt'] == 15,
    sem=ls_sem(False, 4, fld('Rn'), fld('Rt'), imm('imm12')))
Enc('StrImmediateThumbT4', 'T32', '11111 000 0 1 0 0 Rn Rt 1 P U W imm8', family=FAM,
    guard=lambda f: z3.And(not_unpriv_thumb(f), not_p0w0(f),
                           z3.Not(z3.And(f['Rn'] == 13, f['P'] == 1, f['U'] == 0, f['W'] == 1, f['imm8'] == 4))),
    undefined=und_rn_pc,
    unpred=lambda f, S: z3.Or(f['Rt'] == 15, z3.And(f['W'] == 1, f['Rn'] == f['Rt'])),
    sem=ls_sem(False, 4, fld('Rn'), fld('Rt'), imm('imm8'), index=P_, add=U_, wback=lambda f: f['W'] == 1))
Enc('StrRegisterT2', 'T32', '11111 000 0 1 0 0 Rn Rt 0 00000 imm2 Rm', family=FAM, undefined=und_rn_pc,
    unpred=lambda f, S: z3.Or(f['Rt'] == 15, badreg(f['Rm'])),
    sem=ls_sem(False, 4, fld('Rn'), fld('Rt'), off_reg_t32))
Enc('StrtT1', 'T32', '11111 000 0 1 0 0 Rn Rt 1 110 imm8', family=FAM, undefined=und_rn_pc,
    unpred=lambda f, S: badreg(f['Rt']),
    sem=ls_sem(False, 4, fld('Rn'), fld('Rt'), imm('imm8'), unpriv=True))

Enc('StrbImmediateThumbT2', 'T32', '11111 000 1 0 0 0 Rn Rt imm12', family=FAM, undefined=und_rn_pc,
    unpred=lambda f, S: badreg(f['Rt']),
    sem=ls_sem(False, 1, fld('Rn'), fld('Rt'), imm('imm12')))
Enc('StrbImmediateThumbT3', 'T32', '11111 000 0 0 0 0 Rn Rt 1 P U W imm8', family=FAM,
    guard=lambda f: z3.And(not_unpriv_thumb(f), not_p0w0(f)), undefined=und_rn_pc,
    unpred=lambda f, S: z3.Or(badreg(f['Rt']), z3.And(f['W'] == 1, f['Rn'] == f['Rt'])),
    sem=ls_sem(False, 1, fld('Rn'), fld('Rt'), imm('imm8'), index=P_, add=U_, wback=lambda f: f['W'] == 1))
Enc('StrbRegisterT2', 'T32', '11111 000 0 0 0 0 Rn Rt 0 00000 imm2 Rm', family=FAM, undefined=und_rn_pc,
    unpred=lambda f, S: z3.Or(badreg(f['Rt']), badreg(f['Rm'])),
    sem=ls_sem(False, 1, fld('Rn'), fld('Rt'), off_reg_t32))
Enc('StrbtT1', 'T32', '11111 000 0 0 0 0 Rn Rt 1 110 imm8', family=FAM, undefined=und_rn_pc,
    unpred=lambda f, S: badreg(f['Rt']),
    sem=ls_sem(False, 1, fld('Rn'), fld('Rt'), imm('imm8'), unpriv=True))

for _n, _d in (('LdrImmediateThumbT4', '11111 000 0 1 0 1 Rn Rt 1 P U W imm8'),
               ('LdrbImmediateThumbT3', '11111 000 0 0 0 1 Rn Rt 1 P U W imm8'),
               ('StrImmediateThumbT4', '11111 000 0 1 0 0 Rn Rt 1 P U W imm8'),
               ('StrbImmediateThumbT3', '11111 000 0 0 0 0 Rn Rt 1 P U W imm8')):
    undef_p0w0_row(_n, _d)
