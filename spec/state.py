"""Oracle machine state and the ARM ARM (DDI 0406C) system-level pseudocode over it.

Everything is a z3 term; control flow in the pseudocode becomes if-then-else merging of
states.  UNPREDICTABLE behaviour is accumulated in ``S.unpred`` (a z3 Bool): obligations are
only asserted where it is false.
"""
import z3

from . import pseudo as P
from .pseudo import BV, bv, bits, bit, zx, sx, cat, b1

MODE = {'usr': 0b10000, 'fiq': 0b10001, 'irq': 0b10010, 'svc': 0b10011, 'mon': 0b10110, 'abt': 0b10111,
        'hyp': 0b11010, 'und': 0b11011, 'sys': 0b11111}

RNAMES = ['R0usr', 'R1usr', 'R2usr', 'R3usr', 'R4usr', 'R5usr', 'R6usr', 'R7usr', 'R8usr', 'R8fiq', 'R9usr', 'R9fiq',
          'R10usr', 'R10fiq', 'R11usr', 'R11fiq', 'R12usr', 'R12fiq', 'SPusr', 'SPfiq', 'SPirq', 'SPsvc', 'SPabt',
          'SPund', 'SPmon', 'SPhyp', 'LRusr', 'LRfiq', 'LRirq', 'LRsvc', 'LRabt', 'LRund', 'LRmon', 'PC']

SPSRS = ['hyp', 'svc', 'abt', 'und', 'mon', 'irq', 'fiq']

# CPSR bit positions (B1.3.3)
N_, Z_, C_, V_, Q_, J_, E_, A_, I_, F_, T_ = 31, 30, 29, 28, 27, 24, 9, 8, 7, 6, 5


def bank(n, have_sec, have_virt):
    """B1.3.2 table B1-2: for register number n, list of (name, mode or None=all other modes)"""
    if n <= 7:
        return [('R%dusr' % n, None)]
    if n <= 12:
        return [('R%dfiq' % n, 'fiq'), ('R%dusr' % n, None)]
    if n == 13:
        c = [('SPfiq', 'fiq'), ('SPirq', 'irq'), ('SPsvc', 'svc'), ('SPabt', 'abt'), ('SPund', 'und')]
        if have_sec:
            c.append(('SPmon', 'mon'))
        if have_virt:
            c.append(('SPhyp', 'hyp'))
        return c + [('SPusr', None)]
    c = [('LRfiq', 'fiq'), ('LRirq', 'irq'), ('LRsvc', 'svc'), ('LRabt', 'abt'), ('LRund', 'und')]
    if have_sec:
        c.append(('LRmon', 'mon'))
    return c + [('LRusr', None)]  # Hyp mode uses LR_usr


# values written to general registers on the current path: by the code under test (through the summaries of
# Registers.set / set_rmode) and by the oracle -- candidates for the value lemmas of vf/unit.py
WRITES_IMPL = []
WRITES_OR = []
MUX = {}  # ast id -> register-read multiplexer term built by bank_get (kept alive so that ids stay unique)


def bank_get(R, n, mode, have_sec, have_virt):
    """R: dict name -> BV32. value of R[n] as seen from `mode` (n: int 0..14 or 4-bit term)"""
    res = _bank_get(R, n, mode, have_sec, have_virt)
    if z3.is_app(res) and res.decl().kind() == z3.Z3_OP_ITE:
        MUX[res.get_id()] = res
    return res


def _bank_get(R, n, mode, have_sec, have_virt):
    if isinstance(n, int):
        res = None
        for name, m in reversed(bank(n, have_sec, have_virt)):
            res = R[name] if m is None else z3.If(mode == MODE[m], R[name], res)
        return res
    n = bv(n, 4)
    res = _bank_get(R, 14, mode, have_sec, have_virt)
    for i in range(13, -1, -1):
        res = z3.If(n == i, _bank_get(R, i, mode, have_sec, have_virt), res)
    return res


def bank_set(R, n, mode, v, guard, have_sec, have_virt):
    g = z3.BoolVal(True) if guard is None else guard
    if isinstance(n, int):
        rest = g
        for name, m in bank(n, have_sec, have_virt):
            if m is None:
                c = rest
            else:
                c = z3.And(rest, mode == MODE[m])
                rest = z3.And(rest, mode != MODE[m])
            R[name] = z3.If(c, v, R[name])
        return
    n = bv(n, 4)
    for i in range(15):
        bank_set(R, i, mode, v, z3.And(g, n == i), have_sec, have_virt)


def set_bits(x, hi, lo, v):
    """x with bits hi..lo replaced by v (term of width hi-lo+1 or int)"""
    w = x.size()
    v = bv(v, hi - lo + 1)
    parts = []
    if hi < w - 1:
        parts.append(bits(x, w - 1, hi + 1))
    parts.append(v)
    if lo > 0:
        parts.append(bits(x, lo - 1, 0))
    return cat(*parts)


def ite(c, a, b):
    if a is b:
        return a
    return z3.If(c, a, b)


class St:
    def __init__(self, cfg):
        self.cfg = cfg  # dict: arch, sec, virt, pmsa, ...
        self.R = {}
        self.cpsr = None
        self.spsr = {}
        self.elr_hyp = None
        self.sys = {}  # name -> BV term (control registers by snapshot key)
        self.flags = {}  # name -> z3 Bool (event_register, is_wait_for_event, is_wait_for_interrupt)
        self.mem = None
        self.unpred = z3.BoolVal(False)
        self.branched = z3.BoolVal(False)
        self.thumb = False  # instruction-set state at the start of the step (concrete)

    def copy(self):
        s = St(self.cfg)
        s.R = dict(self.R)
        s.cpsr = self.cpsr
        s.spsr = dict(self.spsr)
        s.elr_hyp = self.elr_hyp
        s.sys = dict(self.sys)
        s.flags = dict(self.flags)
        s.mem = self.mem
        s.unpred = self.unpred
        s.branched = self.branched
        s.thumb = self.thumb
        s.unpriv_access = getattr(self, 'unpriv_access', False)
        return s

    def map_terms(self, fn):
        """a copy with fn applied to every component term"""
        s = self.copy()
        s.R = {k: fn(v) for k, v in self.R.items()}
        s.cpsr = fn(self.cpsr)
        s.spsr = {k: fn(v) for k, v in self.spsr.items()}
        s.elr_hyp = fn(self.elr_hyp)
        s.sys = {k: (fn(v) if z3.is_expr(v) else v) for k, v in self.sys.items()}
        s.flags = {k: (fn(v) if z3.is_expr(v) else v) for k, v in self.flags.items()}
        s.mem = fn(self.mem)
        return s

    # ---- generic -------------------------------------------------------
    @property
    def arch(self):
        return self.cfg['arch']

    @property
    def have_sec(self):
        return self.cfg['sec']

    @property
    def have_virt(self):
        return self.cfg['virt']

    def unpredictable(self, c=True):
        self.unpred = z3.Or(self.unpred, c if not isinstance(c, bool) else z3.BoolVal(c))

    # ---- CPSR ----------------------------------------------------------
    def cbit(self, i):
        return bit(self.cpsr, i)

    def set_cbit(self, i, v):
        self.cpsr = set_bits(self.cpsr, i, i, b1(v) if z3.is_bool(v) else bv(v, 1))

    def mode(self):
        return bits(self.cpsr, 4, 0)

    def set_mode(self, m):
        self.cpsr = set_bits(self.cpsr, 4, 0, m)

    def it(self):
        return cat(bits(self.cpsr, 15, 10), bits(self.cpsr, 26, 25))

    def set_it(self, it):
        it = bv(it, 8)
        self.cpsr = set_bits(set_bits(self.cpsr, 15, 10, bits(it, 7, 2)), 26, 25, bits(it, 1, 0))

    def ge(self):
        return bits(self.cpsr, 19, 16)

    def set_ge(self, ge):
        self.cpsr = set_bits(self.cpsr, 19, 16, ge)

    def nzcv(self):
        return self.cbit(N_), self.cbit(Z_), self.cbit(C_), self.cbit(V_)

    def set_nz(self, result):
        self.set_cbit(N_, bit(result, result.size() - 1))
        self.set_cbit(Z_, result == 0)

    def set_nzcv(self, result, c, v):
        self.set_nz(result)
        self.set_cbit(C_, c)
        self.set_cbit(V_, v)

    def is_mode(self, name):
        return self.mode() == MODE[name]

    def is_secure(self):
        if not self.have_sec:
            return z3.BoolVal(True)
        return z3.Or(z3.Not(bit(self.sys['scr'], 0)), self.is_mode('mon'))

    def privileged(self):
        return z3.Not(self.is_mode('usr'))

    def sctlr(self, i):
        return bit(self.sys['sctlr'], i)

    # ---- registers -----------------------------------------------------
    def rmode_get(self, n, mode):
        """n: python int 0..14 or 4-bit term; mode: 5-bit term"""
        return bank_get(self.R, n, mode, self.have_sec, self.have_virt)

    def rmode_set(self, n, mode, v, guard=None):
        """write v to R[n] of mode (n int or 4-bit term, must be 0..14), optionally only when guard"""
        if z3.is_bv(v) and not z3.is_bv_value(v):
            WRITES_OR.append(v)
        bank_set(self.R, n, mode, v, guard, self.have_sec, self.have_virt)

    def pc_read(self):
        return self.R['PC'] + (4 if self.thumb else 8)

    def reg(self, n):
        """R[n] for n int or 4-bit term, incl. PC reads"""
        if isinstance(n, int):
            return self.pc_read() if n == 15 else self.rmode_get(n, self.mode())
        n = bv(n, 4)
        return z3.If(n == 15, self.pc_read(), self.rmode_get(n, self.mode()))

    def set_reg(self, n, v, guard=None):
        """R[n] = v for n != 15"""
        self.rmode_set(n, self.mode(), v, guard)

    def sp(self):
        return self.reg(13)

    def lr(self):
        return self.reg(14)

    def spsr_get(self):
        m = self.mode()
        res = BV(0, 32)
        for k in SPSRS:
            if (k == 'mon' and not self.have_sec) or (k == 'hyp' and not self.have_virt):
                continue
            res = z3.If(m == MODE[k], self.spsr[k], res)
        return res

    def spsr_set(self, v, guard=None):
        m = self.mode()
        for k in SPSRS:
            if (k == 'mon' and not self.have_sec) or (k == 'hyp' and not self.have_virt):
                continue
            c = m == MODE[k]
            if guard is not None:
                c = z3.And(guard, c)
            self.spsr[k] = z3.If(c, v, self.spsr[k])

    def has_spsr(self):
        m = self.mode()
        return z3.And(m != MODE['usr'], m != MODE['sys'])

    # ---- PC writes (A2.3.1) --------------------------------------------
    def branch_to(self, addr):
        self.R['PC'] = addr
        self.branched = z3.BoolVal(True)

    def cur_thumb(self):
        """current T bit as Bool (may have been changed during the step)"""
        return self.cbit(T_)

    def branch_write_pc(self, addr):
        # instruction-set state does not change in BranchWritePC; use the current T bit
        t = self.cur_thumb()
        if self.arch < 6:
            self.unpredictable(z3.And(z3.Not(t), bits(addr, 1, 0) != 0))
        self.branch_to(z3.If(t, cat(bits(addr, 31, 1), BV(0, 1)), cat(bits(addr, 31, 2), BV(0, 2))))

    def bx_write_pc(self, addr):
        b0 = bit(addr, 0)
        b1_ = bit(addr, 1)
        self.unpredictable(z3.And(z3.Not(b0), b1_))
        self.set_cbit(T_, b0)  # J stays 0
        self.branch_to(z3.If(b0, cat(bits(addr, 31, 1), BV(0, 1)), addr))

    def alu_write_pc(self, addr):
        if self.arch >= 7 and not self.thumb:
            self.bx_write_pc(addr)
        else:
            self.branch_write_pc(addr)

    def load_write_pc(self, addr):
        if self.arch >= 5:
            self.bx_write_pc(addr)
        else:
            self.branch_write_pc(addr)

    # ---- merging -------------------------------------------------------
    @staticmethod
    def merge(c, a, b):
        """state equal to a when c else b"""
        if isinstance(c, bool):
            return a if c else b
        c = z3.simplify(c)
        if z3.is_true(c):
            return a
        if z3.is_false(c):
            return b
        s = St(a.cfg)
        s.thumb = a.thumb
        s.R = {k: ite(c, a.R[k], b.R[k]) for k in a.R}
        s.cpsr = ite(c, a.cpsr, b.cpsr)
        s.spsr = {k: ite(c, a.spsr[k], b.spsr[k]) for k in a.spsr}
        s.elr_hyp = ite(c, a.elr_hyp, b.elr_hyp)
        s.sys = {k: ite(c, a.sys[k], b.sys[k]) for k in a.sys}
        s.flags = {k: ite(c, a.flags[k], b.flags[k]) for k in a.flags}
        s.mem = ite(c, a.mem, b.mem)
        s.unpred = ite(c, a.unpred, b.unpred)
        s.branched = ite(c, a.branched, b.branched)
        return s

    def when(self, c, fn):
        """apply fn to a copy and merge under c; returns the merged state (does not modify self)"""
        t = self.copy()
        fn(t)
        return St.merge(c, t, self)

    def assign(self, other):
        self.__dict__.update(other.__dict__)

    # ---- memory (B2.4) -------------------------------------------------
    def _read_bytes(self, addr, size):
        bs = [P.sel8(self.mem, z3.simplify(addr + i)) for i in range(size)]
        return bs[0] if size == 1 else cat(*reversed(bs))

    def _write_bytes(self, addr, size, v, guard=None):
        m = self.mem
        for i in range(size):
            m = z3.Store(m, addr + i, bits(v, 8 * i + 7, 8 * i))
        self.mem = m if guard is None else z3.If(guard, m, self.mem)

    def _align(self, addr, size):
        sh = size.bit_length() - 1
        # written as size * (addr DIV size) so that it normalises like the code's align()
        return addr if sh == 0 else BV(size, 32) * zx(bits(addr, 31, sh), 32)

    def _legacy_align(self):
        """ArchVersion() < 7 && SCTLR.A == 0 && SCTLR.U == 0"""
        if self.arch >= 7:
            return z3.BoolVal(False)
        return z3.And(z3.Not(self.sctlr(1)), z3.Not(self.sctlr(22)))

    def mem_a_fault(self, addr, size):
        """alignment-fault condition of MemA"""
        un = addr != self._align(addr, size)
        return z3.And(un, z3.Not(self._legacy_align()))

    def mem_u_fault(self, addr, size):
        un = addr != self._align(addr, size)
        # SCTLR.A == 1 (non-Hyp) and unaligned after the legacy adjustment
        return z3.And(un, z3.Not(self._legacy_align()), self.sctlr(1))

    def _endian(self, v, size):
        return z3.If(self.cbit(E_), P.big_endian_reverse(v), v) if size > 1 else v

    def mem_a_get(self, addr, size):
        """value of MemA[addr,size] assuming no fault"""
        va = self._align(addr, size)  # either aligned already or legacy align-down
        return self._endian(self._read_bytes(va, size), size)

    def mem_u_get(self, addr, size):
        # aligned, legacy align-down, or byte-by-byte (equivalent to an unaligned little-endian read)
        a = z3.If(self._legacy_align(), self._align(addr, size), addr)
        return self._endian(self._read_bytes(a, size), size)

    def mem_a_set(self, addr, size, v, guard=None):
        va = self._align(addr, size)
        self._write_bytes(va, size, self._endian(v, size), guard)

    def mem_u_set(self, addr, size, v, guard=None):
        a = z3.If(self._legacy_align(), self._align(addr, size), addr)
        self._write_bytes(a, size, self._endian(v, size), guard)

    # ---- exceptions (B1.9) ----------------------------------------------
    def exc_vector_base(self):
        if self.have_sec:
            return z3.If(self.sctlr(13), BV(0xFFFF0000, 32), self.sys['vbar'])
        return z3.If(self.sctlr(13), BV(0xFFFF0000, 32), BV(0, 32))

    def it_advance(self):
        self.set_it(P.it_advance(self.it()))

    def _scr(self, i):
        return bit(self.sys['scr'], i)

    def _hcr(self, i):
        return bit(self.sys['hcr'], i)

    def enter_monitor_mode(self, new_spsr, new_lr, vect_offset):
        self.set_mode(MODE['mon'])
        self.spsr['mon'] = new_spsr
        self.R['LRmon'] = new_lr
        self.set_cbit(J_, False)
        self.set_cbit(T_, self.sctlr(30))
        self.set_cbit(E_, self.sctlr(25))
        self.set_cbit(A_, True)
        self.set_cbit(F_, True)
        self.set_cbit(I_, True)
        self.set_it(0)
        self.branch_to(self.sys['mvbar'] + vect_offset)

    def enter_hyp_mode(self, new_spsr, preferred_return, vect_offset):
        self.set_mode(MODE['hyp'])
        self.spsr['hyp'] = new_spsr
        self.elr_hyp = preferred_return
        self.set_cbit(J_, False)
        self.set_cbit(T_, bit(self.sys['hsctlr'], 30))
        self.set_cbit(E_, bit(self.sys['hsctlr'], 25))
        self.set_cbit(A_, z3.Or(self.cbit(A_), z3.Not(self._scr(3))))
        self.set_cbit(F_, z3.Or(self.cbit(F_), z3.Not(self._scr(2))))
        self.set_cbit(I_, z3.Or(self.cbit(I_), z3.Not(self._scr(1))))
        self.set_it(0)
        self.branch_to(self.sys['hvbar'] + vect_offset)

    def _clear_ns_if_mon(self):
        if self.have_sec:
            self.sys['scr'] = z3.If(self.is_mode('mon'), set_bits(self.sys['scr'], 0, 0, 0), self.sys['scr'])

    def _enter_std(self, mode, new_spsr, new_lr, vect, mask_a=False, mask_f=False, impdef_vector=None, ve=False):
        self._clear_ns_if_mon()
        self.set_mode(MODE[mode])
        self.spsr[mode] = new_spsr
        self.R['LR' + mode] = new_lr
        self.set_cbit(I_, True)
        if self.have_sec and not self.have_virt:
            can = z3.Or(z3.Not(self._scr(0)), self._scr(5))  # SCR.NS == 0 || SCR.AW == 1
            canf = z3.Or(z3.Not(self._scr(0)), self._scr(4))  # SCR.NS == 0 || SCR.FW == 1
        else:
            can = canf = z3.BoolVal(True)
        if mask_f:
            self.set_cbit(F_, z3.Or(self.cbit(F_), canf))
        if mask_a:
            self.set_cbit(A_, z3.Or(self.cbit(A_), can))
        self.set_it(0)
        self.set_cbit(J_, False)
        self.set_cbit(T_, self.sctlr(30))
        self.set_cbit(E_, self.sctlr(25))
        target = self.exc_vector_base() + vect
        if ve:
            target = z3.If(self.sctlr(24), BV(impdef_vector, 32), target)
        self.branch_to(target)

    def _hyp_routing(self):
        """(take_to_hyp, tge_from_user) of the synchronous exceptions"""
        if not (self.have_virt and self.have_sec):
            return z3.BoolVal(False), z3.BoolVal(False)
        take_to_hyp = z3.And(self._scr(0), self.is_mode('hyp'))
        route_to_hyp = z3.And(z3.Not(self.is_secure()), self._hcr(27), self.is_mode('usr'))
        return take_to_hyp, route_to_hyp

    def take_undef_instr_exception(self):
        t = self.cbit(T_)
        pc = self.pc_read_now()
        new_lr = z3.If(t, pc - 2, pc - 4)
        new_spsr = self.cpsr
        preferred = new_lr - z3.If(t, BV(2, 32), BV(4, 32))
        tth, rth = self._hyp_routing()
        a, b, c = self.copy(), self.copy(), self.copy()
        a.enter_hyp_mode(new_spsr, preferred, 4)
        b.enter_hyp_mode(new_spsr, preferred, 20)
        c._enter_std('und', new_spsr, new_lr, 4)
        self.assign(St.merge(tth, a, St.merge(rth, b, c)))

    def take_svc_exception(self):
        self.it_advance()
        t = self.cbit(T_)
        pc = self.pc_read_now()
        new_lr = z3.If(t, pc - 2, pc - 4)
        new_spsr = self.cpsr
        tth, rth = self._hyp_routing()
        a, b, c = self.copy(), self.copy(), self.copy()
        a.enter_hyp_mode(new_spsr, new_lr, 8)
        b.enter_hyp_mode(new_spsr, new_lr, 20)
        c._enter_std('svc', new_spsr, new_lr, 8)
        self.assign(St.merge(tth, a, St.merge(rth, b, c)))

    def take_smc_exception(self):
        self.it_advance()
        t = self.cbit(T_)
        pc = self.pc_read_now()
        new_lr = z3.If(t, pc, pc - 4)
        new_spsr = self.cpsr
        self._clear_ns_if_mon()
        self.enter_monitor_mode(new_spsr, new_lr, 8)

    def take_hyp_trap_exception(self):
        t = self.cbit(T_)
        pc = self.pc_read_now()
        preferred = z3.If(t, pc - 4, pc - 8)
        self.enter_hyp_mode(self.cpsr, preferred, 20)

    def take_data_abort_exception(self, alignment_fault=None, second_stage=False):
        """synchronous, non-external data abort (external aborts are a constant-False stub in the repo)"""
        t = self.cbit(T_)
        pc = self.pc_read_now()
        new_lr = z3.If(t, pc + 4, pc)
        new_spsr = self.cpsr
        preferred = new_lr - 8
        if self.have_virt and self.have_sec:
            take_to_hyp = z3.And(self._scr(0), self.is_mode('hyp'))
            af = alignment_fault if alignment_fault is not None else z3.BoolVal(False)
            route_to_hyp = z3.And(z3.Not(self.is_secure()),
                                  z3.Or(z3.BoolVal(second_stage), z3.And(self.is_mode('usr'), self._hcr(27), af)))
        else:
            take_to_hyp = route_to_hyp = z3.BoolVal(False)
        a, b, c = self.copy(), self.copy(), self.copy()
        a.enter_hyp_mode(new_spsr, preferred, 16)
        b.enter_hyp_mode(new_spsr, preferred, 20)
        c._enter_std('abt', new_spsr, new_lr, 16, mask_a=True)
        self.assign(St.merge(take_to_hyp, a, St.merge(route_to_hyp, b, c)))

    def _take_irq_fiq(self, mode, vect, scr_bit, hcr_bit, impdef):
        t = self.cbit(T_)
        pc = self.pc_read_now()
        new_lr = z3.If(t, pc, pc - 4)
        new_spsr = self.cpsr
        if self.have_sec:
            route_to_monitor = self._scr(scr_bit)
        else:
            route_to_monitor = z3.BoolVal(False)
        if self.have_virt and self.have_sec:
            route_to_hyp = z3.Or(z3.And(z3.Not(self._scr(scr_bit)), self._hcr(hcr_bit), z3.Not(self.is_secure())),
                                 self.is_mode('hyp'))
        else:
            route_to_hyp = self.is_mode('hyp') if self.have_virt else z3.BoolVal(False)
        a, b, c = self.copy(), self.copy(), self.copy()
        a._clear_ns_if_mon()
        a.enter_monitor_mode(new_spsr, new_lr, vect)
        b.sys['hsr'] = BV(0, 32)  # UNKNOWN; the repo writes 0
        b.enter_hyp_mode(new_spsr, new_lr - 4, vect)
        c._enter_std(mode, new_spsr, new_lr, vect, mask_a=True, mask_f=(mode == 'fiq'), impdef_vector=impdef, ve=True)
        self.assign(St.merge(route_to_monitor, a, St.merge(route_to_hyp, b, c)))

    def take_physical_irq_exception(self):
        self._take_irq_fiq('irq', 24, 1, 4, self.cfg.get('impdef_irq_vector', 24))

    def take_physical_fiq_exception(self):
        self._take_irq_fiq('fiq', 28, 2, 3, self.cfg.get('impdef_fiq_vector', 28))

    def pc_read_now(self):
        """R[15] with the *current* T bit"""
        return self.R['PC'] + z3.If(self.cbit(T_), BV(4, 32), BV(8, 32))

    # ---- data abort bookkeeping (PMSA, B5.5 / VMSA short format) -------------
    def pmsa_fault_status(self, addr, is_write, fs5):
        """DFAR = addr; DFSR[13:0] = 0:0:WnR:FS[4]:0000 0:FS[3:0]"""
        self.sys['dfar'] = addr
        w = b1(is_write) if z3.is_bool(is_write) else bv(int(bool(is_write)), 1)
        fs = bv(fs5, 5)
        s14 = cat(BV(0, 2), w, bits(fs, 4, 4), BV(0, 6), bits(fs, 3, 0))
        self.sys['dfsr'] = set_bits(self.sys['dfsr'], 13, 0, s14)

    def vmsa_fault_status(self, addr, is_write, fs5, domain=None):
        """short-descriptor format DFSR (B3.13 / B4.1.52), FCSE-translated address in DFAR"""
        pid = bits(self.sys['fcseidr'], 31, 25)
        mva = z3.If(bits(addr, 31, 25) == 0, cat(pid, bits(addr, 24, 0)), addr)
        self.sys['dfar'] = mva
        w = b1(is_write) if z3.is_bool(is_write) else bv(int(bool(is_write)), 1)
        fs = bv(fs5, 5)
        dom = BV(0, 4) if domain is None else domain
        s14 = cat(BV(0, 2), w, bits(fs, 4, 4), BV(0, 2), dom, bits(fs, 3, 0))
        self.sys['dfsr'] = set_bits(self.sys['dfsr'], 13, 0, s14)

    # ---- CPSRWriteByInstr (B1.3.3) ---------------------------------------
    def bad_mode(self, m):
        ok = [m == MODE[k] for k in ('usr', 'fiq', 'irq', 'svc', 'abt', 'und', 'sys')]
        if self.have_sec:
            ok.append(m == MODE['mon'])
        if self.have_virt:
            ok.append(m == MODE['hyp'])
        return z3.Not(z3.Or(*ok))

    def cpsr_write_by_instr(self, value, bytemask, is_excp_return):
        """bytemask: 4-bit term or int; is_excp_return: python bool"""
        bm = bv(bytemask, 4)
        priv = self.privileged()
        nmfi = self.sctlr(27)
        sec = self.is_secure()
        c = self.cpsr
        new = c
        def put(cond, hi, lo):
            nonlocal new
            new = z3.If(cond, set_bits(new, hi, lo, bits(value, hi, lo)), new)
        b3, b2, b1_, b0 = bit(bm, 3), bit(bm, 2), bit(bm, 1), bit(bm, 0)
        put(b3, 31, 27)
        if is_excp_return:
            put(b3, 26, 24)
        put(b2, 19, 16)
        if is_excp_return:
            put(b1_, 15, 10)
        put(b1_, 9, 9)
        aw = self._scr(5) if self.have_sec else z3.BoolVal(True)
        fw = self._scr(4) if self.have_sec else z3.BoolVal(True)
        virt = z3.BoolVal(self.have_virt)
        put(z3.And(b1_, priv, z3.Or(sec, aw, virt)), 8, 8)
        put(z3.And(b0, priv), 7, 7)
        put(z3.And(b0, priv, z3.Or(z3.Not(nmfi), z3.Not(bit(value, 6))), z3.Or(sec, fw, virt)), 6, 6)
        if is_excp_return:
            put(b0, 5, 5)
        vm = bits(value, 4, 0)
        curm = bits(c, 4, 0)
        ns = self._scr(0) if self.have_sec else z3.BoolVal(False)
        rfr = bit(self.sys['nsacr'], 19) if 'nsacr' in self.sys else z3.BoolVal(False)
        unp = z3.Or(self.bad_mode(vm),
                    z3.And(z3.Not(sec), vm == MODE['mon']),
                    z3.And(z3.Not(sec), vm == MODE['fiq'], rfr),
                    z3.And(z3.Not(ns), vm == MODE['hyp']),
                    z3.And(z3.Not(sec), curm != MODE['hyp'], vm == MODE['hyp']),
                    z3.And(curm == MODE['hyp'], vm != MODE['hyp'], z3.BoolVal(not is_excp_return)))
        modewr = z3.And(b0, priv)
        self.unpredictable(z3.And(modewr, unp))
        new = z3.If(z3.And(modewr, z3.Not(unp)), set_bits(new, 4, 0, vm), new)
        self.cpsr = new
        if is_excp_return:
            # returning to ARM state with IT bits set / illegal J:T combinations is UNPREDICTABLE
            pass

    def spsr_write_by_instr(self, value, bytemask):
        bm = bv(bytemask, 4)
        self.unpredictable(z3.Not(self.has_spsr()))
        s = self.spsr_get()
        new = s
        for i, (hi, lo) in ((3, (31, 24)), (2, (19, 16)), (1, (15, 8))):
            new = z3.If(bit(bm, i), set_bits(new, hi, lo, bits(value, hi, lo)), new)
        new = z3.If(bit(bm, 0), set_bits(new, 7, 5, bits(value, 7, 5)), new)
        bad = self.bad_mode(bits(value, 4, 0))
        self.unpredictable(z3.And(bit(bm, 0), bad))
        new = z3.If(z3.And(bit(bm, 0), z3.Not(bad)), set_bits(new, 4, 0, bits(value, 4, 0)), new)
        self.spsr_set(new)
