"""Instruction table framework: encoding diagrams, field extraction, and the one-step oracle.

An ``Enc`` row is one encoding of the ARM ARM (A8.8): its diagram gives the fixed bits and the field
slices; ``guard`` = the extra conditions under which the diagram denotes *this* instruction (the manual's
"SEE ..." exclusions); ``undefined`` / ``unpred`` the architecture's UNDEFINED / UNPREDICTABLE
predicates; ``sem`` the operation pseudocode on a spec.state.St (executed assuming the condition passed).
"""
import re

import z3

from . import pseudo as P
from .pseudo import BV, bv, bits, bit, zx, sx, cat
from .state import St

STD_W = {'cond': 4, 'S': 1, 'Rn': 4, 'Rd': 4, 'Rm': 4, 'Rs': 4, 'Rt': 4, 'Rt2': 4, 'Ra': 4, 'RdHi': 4, 'RdLo': 4,
         'Rdn': 3, 'imm5': 5, 'type': 2, 'imm12': 12, 'imm8': 8, 'imm4': 4, 'imm3': 3, 'imm24': 24, 'imm2': 2,
         'imm6': 6, 'imm7': 7, 'imm10': 10, 'imm11': 11, 'imm16': 16, 'imm4H': 4, 'imm4L': 4,
         'i': 1, 'P': 1, 'U': 1, 'W': 1, 'D': 1, 'N': 1, 'M': 1, 'R': 1, 'H': 1, 'J1': 1, 'J2': 1, 'DN': 1, 'DM': 1,
         'T': 1, 'E': 1, 'A': 1, 'I': 1, 'F': 1, 'L': 1, 'X': 1, 'op': 1, 'rotate': 2, 'sh': 1, 'tb': 1,
         'mask': 4, 'firstcond': 4, 'register_list': 16, 'coproc': 4, 'opc1': 4, 'opc2': 3, 'CRn': 4, 'CRm': 4,
         'CRd': 4, 'msb': 5, 'lsb': 5, 'widthm1': 5, 'sat_imm': 5, 'mode': 5, 'option': 4}

ISA = {}


def camel(snake):
    return ''.join(p.capitalize() for p in snake.split('_'))


class Enc:
    def __init__(self, name, iset, diagram, sem=None, guard=None, undefined=None, unpred=None, cond=None, attrs=None,
                 arch=4, family='', it_ok=True, sbz_unpred=True, notes='', notimpl=None, known=None):
        """name: repository class name. iset: 'A' | 'T16' | 'T32'.
        cond: None -> default ('arm' cond field for A if the diagram has one, IT-derived for Thumb);
              'field' -> Thumb conditional branch field named cond; 'none' -> always executes."""
        self.name = name
        self.iset = iset
        self.diagram = diagram
        self.sem = sem
        self.guard = guard
        self.undefined = undefined
        self.unpred = unpred
        self.attrs = attrs
        self.arch = arch
        self.family = family
        self.notes = notes
        self.notimpl = notimpl  # (f, S) -> Bool: the repository reports an unimplemented feature (mock hook)
        self.known = known or []  # [(finding id, (f, S) -> Bool region)]: excluded only while the finding is open
        self.length = 16 if iset == 'T16' else 32
        self.thumb = iset != 'A'
        self.items = self._parse(diagram)
        names = [n for k, n, w, v in self.items if k == 'f']
        if cond is None:
            if not self.thumb:
                cond = 'arm' if 'cond' in names else 'none'
            else:
                cond = 'it'
        self.cond = cond
        self.sbz_unpred = sbz_unpred
        total = sum(w for k, n, w, v in self.items)
        assert total == self.length, '%s: diagram has %d bits' % (name, total)
        assert name not in ISA, name
        ISA[name] = self

    @staticmethod
    def _parse(diagram):
        items = []
        sb = 0
        for tok in diagram.split():
            if re.fullmatch(r'[01]+', tok):
                items.append(('c', None, len(tok), int(tok, 2)))
            elif re.fullmatch(r'(\([01]\))+', tok):
                bitsv = tok.replace('(', '').replace(')', '')
                items.append(('s', '_sb%d' % sb, len(bitsv), int(bitsv, 2)))
                sb += 1
            else:
                if ':' in tok:
                    n, w = tok.split(':')
                    w = int(w)
                else:
                    n, w = tok, STD_W[tok]
                items.append(('f', n, w, None))
        return items

    # ------------------------------------------------------------------
    def word(self, mkvar):
        """build the instruction word from fresh field variables; mkvar(name, width) -> z3 term.
        returns (word, fields)"""
        parts = []
        f = {}
        for k, n, w, v in self.items:
            if k == 'c':
                parts.append(BV(v, w))
            else:
                t = mkvar('f_' + n, w)
                f[n] = t
                parts.append(t)
        word = z3.Concat(*parts) if len(parts) > 1 else parts[0]
        return word, f

    def match(self, word):
        """(matches: z3 Bool, fields: extracts of word)"""
        pos = self.length
        conds = []
        f = {}
        for k, n, w, v in self.items:
            sl = z3.Extract(pos - 1, pos - w, word)
            if k == 'c':
                conds.append(sl == BV(v, w))
            else:
                f[n] = sl
            pos -= w
        m = z3.And(*conds) if conds else z3.BoolVal(True)
        return m, f

    def sb_violation(self, f):
        """should-be bits differ from their specified value (UNPREDICTABLE)"""
        cs = [f[n] != BV(v, w) for k, n, w, v in self.items if k == 's']
        return z3.Or(*cs) if cs else z3.BoolVal(False)

    def g(self, f):
        g = self.guard(f) if self.guard else z3.BoolVal(True)
        if self.cond == 'arm':
            g = z3.And(f['cond'] != 15, g)  # cond == 1111 is the unconditional-instruction space (A5.7)
        return g

    def und(self, f, S):
        return _b(self.undefined(f, S)) if self.undefined else z3.BoolVal(False)

    def unp(self, f, S):
        u = _b(self.unpred(f, S)) if self.unpred else z3.BoolVal(False)
        if self.sbz_unpred:
            u = z3.Or(u, self.sb_violation(f))
        return u


def _b(x):
    return z3.BoolVal(x) if isinstance(x, bool) else x


def any_of(x, *vals):
    return z3.Or(*[x == v for v in vals])


AL = BV(0b1110, 4)


def in_it_block(S):
    return bits(S.it(), 3, 0) != 0 if S.thumb else z3.BoolVal(False)


def last_in_it_block(S):
    return bits(S.it(), 3, 0) == 0b1000 if S.thumb else z3.BoolVal(False)


def current_cond(S, enc, f):
    if not enc.thumb:
        return f['cond'] if enc.cond == 'arm' else AL
    if enc.cond == 'field':
        return f['cond']
    if enc.cond == 'none':
        return AL
    it = S.it()
    return z3.If(bits(it, 3, 0) != 0, bits(it, 7, 4), AL)


class Exc:
    def __init__(self, cond, kind, snap, **kw):
        self.cond = cond
        self.kind = kind
        self.snap = snap
        self.kw = kw


def raise_exc(S, cond, kind, snap=None, **kw):
    """record that an exception of `kind` is raised at this point of the operation when cond holds
    (snap: the state the exception is taken from; default = the current state)"""
    if not hasattr(S, 'excs'):
        S.excs = []
    prior = z3.Or(*[e.cond for e in S.excs]) if S.excs else z3.BoolVal(False)
    S.excs.append(Exc(z3.And(z3.Not(prior), _b(cond)), kind, (snap or S).copy(), **kw))


def aborted(S):
    """Bool: some exception recorded so far fires (later effects of the instruction must not happen)"""
    ex = getattr(S, 'excs', [])
    return z3.Or(*[e.cond for e in ex]) if ex else z3.BoolVal(False)


def _data_abort(S, cond, addr, is_write, fs5, alignment):
    T = S.copy()
    if S.cfg.get('pmsa', True):
        T.pmsa_fault_status(addr, is_write, fs5)
    else:
        T.vmsa_fault_status(addr, is_write, fs5)
    raise_exc(S, cond, 'dabort', snap=T, alignment=z3.BoolVal(alignment))


def _protection(S, addr, size, is_write, kind):
    """PMSA protection checks of one MemA ('a') / MemU ('u') access when the harness runs with the MPU modelled
    (cfg['mpu_k'] = MPUIR.DRegion, the number of regions scanned; None: MPU/MMU off, no checks).  An aligned access is
    translated once at its address (B2.4.4 MemA_with_priv); an unaligned MemU access is performed byte by byte, each
    byte translated on its own in ascending order (B2.4.5).  Unprivileged instructions (LDRT & co) set
    S.unpriv_access: the check then uses User permissions whatever the mode."""
    k = S.cfg.get('mpu_k')
    if k is None:
        return
    from . import pmsa
    ispriv = z3.BoolVal(False) if getattr(S, 'unpriv_access', False) else _b(S.privileged())
    al = S._align(addr, size)
    va = al if kind == 'a' else z3.If(S._legacy_align(), al, addr)
    aligned = va == S._align(va, size)

    def chk(a, cond, partial=False):
        o = pmsa.translate_p(S, a, ispriv, z3.BoolVal(bool(is_write)), k)
        S.unpredictable(z3.And(cond, z3.Not(aborted(S)), o['unpred']))
        if partial:
            # a store that faults after some of its bytes have been written: the architecture leaves the
            # locations of an aborted store UNKNOWN -- no claim
            S.unpredictable(z3.And(cond, z3.Not(aborted(S)), o['fault']))
        _data_abort(S, z3.And(cond, o['fault']), a, is_write, o['fs'], False)
    chk(va, aligned)
    if kind == 'u' and size > 1:
        for i in range(size):
            chk(z3.simplify(va + i), z3.Not(aligned), partial=bool(is_write) and i > 0)


def translate_check(S, addr, is_write):
    """the TranslateAddress() call of SetExclusiveMonitors (read) / ExclusiveMonitorsPass (write): one protection
    check at the address itself, with the current privilege (no-op when the MPU is not modelled)"""
    k = S.cfg.get('mpu_k')
    if k is None:
        return
    from . import pmsa
    o = pmsa.translate_p(S, addr, _b(S.privileged()), z3.BoolVal(bool(is_write)), k)
    S.unpredictable(z3.And(z3.Not(aborted(S)), o['unpred']))
    _data_abort(S, o['fault'], addr, is_write, o['fs'], False)


def mem_u_read(S, addr, size):
    """MemU[addr,size]: records the alignment-fault abort; returns the value read when no fault"""
    _data_abort(S, S.mem_u_fault(addr, size), addr, False, 0b00001, True)
    _protection(S, addr, size, False, 'u')
    return S.mem_u_get(addr, size)


def mem_a_read(S, addr, size):
    _data_abort(S, S.mem_a_fault(addr, size), addr, False, 0b00001, True)
    _protection(S, addr, size, False, 'a')
    return S.mem_a_get(addr, size)


def mem_u_write(S, addr, size, value):
    """MemU[addr,size] = value (no write when this or an earlier access aborts)"""
    _data_abort(S, S.mem_u_fault(addr, size), addr, True, 0b00001, True)
    _protection(S, addr, size, True, 'u')
    S.mem_u_set(addr, size, value, guard=z3.Not(aborted(S)))


def mem_a_write(S, addr, size, value):
    _data_abort(S, S.mem_a_fault(addr, size), addr, True, 0b00001, True)
    _protection(S, addr, size, True, 'a')
    S.mem_a_set(addr, size, value, guard=z3.Not(aborted(S)))


def unaligned_support(S):
    """UnalignedSupport(): ARMv7 always; ARMv6: SCTLR.U"""
    return z3.BoolVal(True) if S.arch >= 7 else S.sctlr(22)


def take(kind, snap, kw):
    s = snap.copy()
    s.branched = z3.BoolVal(False)
    if kind == 'undef':
        s.take_undef_instr_exception()
    elif kind == 'svc':
        s.take_svc_exception()
    elif kind == 'smc':
        s.take_smc_exception()
    elif kind == 'hyptrap':
        s.take_hyp_trap_exception()
    elif kind == 'dabort':
        s.take_data_abort_exception(alignment_fault=kw.get('alignment'))
    else:
        raise AssertionError(kind)
    return s


def step(S0, enc, f):
    """one instruction from S0 per the architecture. Returns (S1, unpred Bool, info dict)"""
    S = S0.copy()
    S.unpred = z3.BoolVal(False)
    S.branched = z3.BoolVal(False)
    n, z, c, v = S.nzcv()
    initb = in_it_block(S0)
    cond = current_cond(S0, enc, f)
    passed = P.condition_holds(cond, n, z, c, v)
    und = enc.und(f, S0)
    unp = enc.unp(f, S0)
    length = enc.length // 8
    Sx = S.copy()
    Sx.excs = []
    enc.sem(Sx, f)
    excs = Sx.excs
    unp = z3.Or(unp, z3.And(passed, Sx.unpred))
    Sx.R['PC'] = z3.If(Sx.branched, Sx.R['PC'], S0.R['PC'] + length)
    Sn = S.copy()
    Sn.R['PC'] = S0.R['PC'] + length
    R = St.merge(passed, Sx, Sn)
    if enc.thumb:
        R.set_it(z3.If(initb, P.it_advance(R.it()), R.it()))
        if enc.attrs and 'it_restore' in enc.attrs:
            # an exception return loads ITSTATE from the SPSR: that value is not advanced
            R.set_it(z3.If(passed, enc.attrs['it_restore'](S0), R.it()))
    any_exc = z3.BoolVal(False)
    for e in reversed(excs):
        R = St.merge(z3.And(passed, e.cond), take(e.kind, e.snap, e.kw), R)
        any_exc = z3.Or(any_exc, z3.And(passed, e.cond))
    U = S0.copy()
    U.take_undef_instr_exception()
    R = St.merge(und, U, R)
    ni = z3.And(z3.Not(und), passed, _b(enc.notimpl(f, S0))) if enc.notimpl else z3.BoolVal(False)
    info = {'passed': passed, 'undefined': und, 'exception': z3.Or(any_exc, und), 'cond': cond, 'notimpl': ni,
            # the conditions the result is merged on (direct subterms of the state components): a harness may decide
            # them per path and substitute the constants (vf/step.py specialise)
            'facts': [passed, und, initb] + [z3.And(passed, e.cond) for e in excs]}
    return R, unp, info


step._it_restore_aware = True


# ---------------------------------------------------------------------------
# helpers for semantics
# ---------------------------------------------------------------------------

def write_reg_or_pc(S, d, value, pcwrite):
    """R[d] = value, with d possibly 15 (d: int or 4-bit term); pcwrite(S, value) performs the PC write"""
    if isinstance(d, int):
        if d == 15:
            pcwrite(S, value)
        else:
            S.set_reg(d, value)
        return
    d = bv(d, 4)
    T = S.copy()
    pcwrite(T, value)
    N = S.copy()
    N.set_reg(d, value, guard=(d != 15))
    S.assign(St.merge(d == 15, T, N))


def setflags_if(S, s, fn):
    """apply fn(S) (flag updates) when s (Bool) holds"""
    T = S.copy()
    fn(T)
    S.assign(St.merge(s, T, S))
