"""Oracle: ARM ARM (DDI 0406C) shared pseudocode over z3 bit-vector terms.

Written from the architecture manual, independently of the repository's formulation.
All functions take/return z3 terms (python ints are accepted where a term is expected).
"""
import z3

BV = z3.BitVecVal


def bv(x, w):
    if isinstance(x, bool):
        return BV(int(x), w)
    if isinstance(x, int):
        return BV(x, w)
    if z3.is_bool(x):
        return z3.If(x, BV(1, w), BV(0, w))
    s = x.size()
    if s == w:
        return x
    if s > w:
        return z3.Extract(w - 1, 0, x)
    return z3.ZeroExt(w - s, x)


def zx(x, w):
    return z3.ZeroExt(w - x.size(), x) if x.size() < w else (x if x.size() == w else z3.Extract(w - 1, 0, x))


def sx(x, w):
    return z3.SignExt(w - x.size(), x) if x.size() < w else (x if x.size() == w else z3.Extract(w - 1, 0, x))


def bits(x, hi, lo):
    return z3.Extract(hi, lo, x)


def bit(x, i):
    """single bit as Bool"""
    return z3.Extract(i, i, x) == 1


def b1(c):
    """Bool -> 1-bit vector"""
    return z3.If(c, BV(1, 1), BV(0, 1))


def cat(*xs):
    return z3.Concat(*xs) if len(xs) > 1 else xs[0]


def is_zero(x):
    return x == 0


# ---------------------------------------------------------------------------
# A2.2.1 integer arithmetic
# ---------------------------------------------------------------------------

def add_with_carry(x, y, carry_in):
    """(result, carry_out, overflow) -- carry_in: Bool or 1-bit; result N bits; flags Bool"""
    n = x.size()
    c = bv(carry_in, n + 2)
    usum = zx(x, n + 2) + zx(y, n + 2) + c
    ssum = sx(x, n + 2) + sx(y, n + 2) + c
    result = bits(usum, n - 1, 0)
    carry_out = zx(result, n + 2) != usum
    overflow = sx(result, n + 2) != ssum
    return result, carry_out, overflow


# ---------------------------------------------------------------------------
# A2.2.1 / A8.4.3 shifts.  Formulated on "which input bit ends up where", not by building x<<n.
# amount: bit-vector term (any width <= 32), value range 0..255
# ---------------------------------------------------------------------------

def _amt(amount, w):
    if isinstance(amount, int):
        return BV(amount, w)
    return zx(amount, w) if amount.size() <= w else amount


def _cw(x, amount):
    """computation width: holds both the operand and the amount (0..255)"""
    return max(x.size(), 16 if isinstance(amount, int) else amount.size() + 1)


def lsl_c(x, amount):
    """amount >= 1"""
    n = x.size()
    w = _cw(x, amount)
    a = _amt(amount, w)
    xe = zx(x, w)
    result = z3.If(z3.ULT(a, n), bits(xe << a, n - 1, 0), BV(0, n))
    # carry = bit (N - amount) of x when amount <= N, else 0
    carry = z3.If(z3.ULE(a, n), bits(z3.LShR(xe, BV(n, w) - a), 0, 0) == 1, z3.BoolVal(False))
    return result, carry


def lsr_c(x, amount):
    n = x.size()
    w = _cw(x, amount)
    a = _amt(amount, w)
    xe = zx(x, w)
    result = z3.If(z3.ULT(a, n), bits(z3.LShR(xe, a), n - 1, 0), BV(0, n))
    carry = z3.If(z3.ULE(a, n), bits(z3.LShR(xe, a - 1), 0, 0) == 1, z3.BoolVal(False))
    return result, carry


def asr_c(x, amount):
    n = x.size()
    w = _cw(x, amount)
    a = _amt(amount, w)
    xe = sx(x, w)
    sign = bit(x, n - 1)
    result = z3.If(z3.ULT(a, n), bits(xe >> a, n - 1, 0), z3.If(sign, BV(-1, n), BV(0, n)))
    carry = z3.If(z3.ULE(a, n), bits(z3.LShR(xe, a - 1), 0, 0) == 1, sign)
    return result, carry


def ror_c(x, amount):
    n = x.size()
    w = _cw(x, amount)
    a = _amt(amount, w)
    m = z3.URem(a, BV(n, w))
    result = z3.RotateRight(x, bits(m, n - 1, 0) if n < w else m)
    carry = bit(result, n - 1)
    return result, carry


def rrx_c(x, carry_in):
    n = x.size()
    result = cat(bv(carry_in, 1), bits(x, n - 1, 1)) if n > 1 else bv(carry_in, 1)
    carry = bit(x, 0)
    return result, carry


# shift kinds as small ints (SRType)
LSL, LSR, ASR, ROR, RRX = 0, 1, 2, 3, 4


def shift_c(value, kind, amount, carry_in):
    """kind: python int 0..4 or 3-bit term; amount: term; carry_in: Bool. returns (result, carry Bool)"""
    n = value.size()
    cin = carry_in if z3.is_bool(carry_in) else (bv(carry_in, 1) == 1)
    a = _amt(amount, _cw(value, amount))
    r_lsl = lsl_c(value, a)
    r_lsr = lsr_c(value, a)
    r_asr = asr_c(value, a)
    r_ror = ror_c(value, a)
    r_rrx = rrx_c(value, cin)
    if isinstance(kind, int):
        r, c = [r_lsl, r_lsr, r_asr, r_ror, r_rrx][kind]
    else:
        k = bv(kind, 3)
        r = z3.If(k == 0, r_lsl[0], z3.If(k == 1, r_lsr[0], z3.If(k == 2, r_asr[0], z3.If(k == 3, r_ror[0],
                                                                                             r_rrx[0]))))
        c = z3.If(k == 0, r_lsl[1], z3.If(k == 1, r_lsr[1], z3.If(k == 2, r_asr[1], z3.If(k == 3, r_ror[1],
                                                                                             r_rrx[1]))))
    return z3.If(a == 0, value, r), z3.If(a == 0, cin, c)


def decode_imm_shift(type2, imm5):
    """returns (kind 3-bit term, amount 6-bit term)"""
    t = bv(type2, 2)
    i = bv(imm5, 5)
    z = i == 0
    kind = z3.If(t == 0, BV(LSL, 3), z3.If(t == 1, BV(LSR, 3), z3.If(t == 2, BV(ASR, 3),
                                                                       z3.If(z, BV(RRX, 3), BV(ROR, 3)))))
    amount = z3.If(t == 0, zx(i, 6), z3.If(z3.Or(t == 1, t == 2), z3.If(z, BV(32, 6), zx(i, 6)),
                                             z3.If(z, BV(1, 6), zx(i, 6))))
    return kind, amount


def decode_reg_shift(type2):
    return zx(bv(type2, 2), 3)


def arm_expand_imm_c(imm12, carry_in):
    i = bv(imm12, 12)
    unrot = zx(bits(i, 7, 0), 32)
    rot = zx(bits(i, 11, 8), 32) * 2
    return shift_c(unrot, ROR, rot, carry_in)


def thumb_expand_imm_c(imm12, carry_in):
    """returns (imm32, carry Bool, unpredictable Bool)"""
    i = bv(imm12, 12)
    cin = carry_in if z3.is_bool(carry_in) else (bv(carry_in, 1) == 1)
    b = bits(i, 7, 0)
    z8 = BV(0, 8)
    sel = bits(i, 9, 8)
    plain = z3.If(sel == 0, cat(z8, z8, z8, b), z3.If(sel == 1, cat(z8, b, z8, b), z3.If(sel == 2, cat(b, z8, b, z8),
                                                                                         cat(b, b, b, b))))
    unpred = z3.And(bits(i, 11, 10) == 0, sel != 0, b == 0)
    unrot = zx(cat(BV(1, 1), bits(i, 6, 0)), 32)
    rot, rc = ror_c(unrot, zx(bits(i, 11, 7), 32))
    top = bits(i, 11, 10) == 0
    return z3.If(top, plain, rot), z3.If(top, cin, rc), unpred


# ---------------------------------------------------------------------------
# saturation (A2.2.1): i is a signed term of any width, n python int (1..64) or term
# ---------------------------------------------------------------------------

def signed_sat_q(i, n, out_w=None):
    """i: signed bit-vector (wide enough); n: python int. returns (result n bits [or out_w, sign-ext trunc], saturated Bool)"""
    w = max(i.size(), n + 1)
    x = sx(i, w)
    hi = BV((1 << (n - 1)) - 1, w)
    lo = BV(-(1 << (n - 1)), w)
    sat = z3.Or(x > hi, x < lo)
    r = z3.If(x > hi, hi, z3.If(x < lo, lo, x))
    return bits(r, n - 1, 0), sat


def unsigned_sat_q(i, n):
    w = max(i.size(), n + 2)
    x = sx(i, w)
    hi = BV((1 << n) - 1, w)
    sat = z3.Or(x > hi, x < 0)
    r = z3.If(x > hi, hi, z3.If(x < 0, BV(0, w), x))
    return bits(r, n - 1, 0), sat


def signed_sat_q_var(i, n):
    """n: term (value 1..32); result returned as 32-bit (two's complement, truncated to 32)"""
    w = i.size() + 2
    x = sx(i, w)
    nn = zx(bv(n, 8), w)
    one = BV(1, w)
    hi = (one << (nn - 1)) - 1
    lo = -(one << (nn - 1))
    sat = z3.Or(x > hi, x < lo)
    r = z3.If(x > hi, hi, z3.If(x < lo, lo, x))
    return r, sat


def unsigned_sat_q_var(i, n):
    w = i.size() + 2
    x = sx(i, w)
    nn = zx(bv(n, 8), w)
    one = BV(1, w)
    hi = (one << nn) - 1
    sat = z3.Or(x > hi, x < 0)
    r = z3.If(x > hi, hi, z3.If(x < 0, BV(0, w), x))
    return r, sat


# ---------------------------------------------------------------------------
# A8.3 conditions
# ---------------------------------------------------------------------------

def condition_holds(cond, n, z, c, v):
    """cond: 4-bit term; n,z,c,v: Bool"""
    cond = bv(cond, 4)
    top = bits(cond, 3, 1)
    base = z3.If(top == 0, z, z3.If(top == 1, c, z3.If(top == 2, n, z3.If(top == 3, v, z3.If(
        top == 4, z3.And(c, z3.Not(z)), z3.If(top == 5, n == v, z3.If(top == 6, z3.And(n == v, z3.Not(z)),
                                                                    z3.BoolVal(True))))))))
    return z3.If(z3.And(bit(cond, 0), cond != 15), z3.Not(base), base)


def count_leading_zeros(x):
    n = x.size()
    r = BV(n, n)
    for i in range(n):
        r = z3.If(bit(x, i), BV(n - 1 - i, n), r)
    return r


def bit_count(x):
    n = x.size()
    w = n.bit_length() + 1
    r = BV(0, w)
    for i in range(n):
        r = r + zx(bits(x, i, i), w)
    return r


def lowest_set_bit(x):
    n = x.size()
    r = BV(n, 8)
    for i in range(n - 1, -1, -1):
        r = z3.If(bit(x, i), BV(i, 8), r)
    return r


def big_endian_reverse(x):
    n = x.size() // 8
    return cat(*[bits(x, 8 * i + 7, 8 * i) for i in range(n)])


def it_advance(it):
    """ITSTATE 8 bits"""
    it = bv(it, 8)
    return z3.If(bits(it, 2, 0) == 0, BV(0, 8), cat(bits(it, 7, 5), bits(it, 3, 0), BV(0, 1)))


def _addr_split(t):
    """(key, offset): the address term as a multiset of non-numeral summands (identified by term ids, a Concat with
    constant low bits counted with those bits zeroed) plus a numeral offset -- two addresses with the same key differ
    by the difference of their offsets.  z3's simplifier does not see Concat(hi, 0b1) == Concat(hi, 0b0) + 1 (the
    halfword-aligned Thumb PC plus a byte offset)."""
    parts, off = [], 0
    stack = [t]
    while stack:
        x = stack.pop()
        if z3.is_bv_value(x):
            off += x.as_long()
            continue
        if z3.is_app(x):
            k = x.decl().kind()
            if k == z3.Z3_OP_BADD:
                stack.extend(x.children())
                continue
            if k == z3.Z3_OP_CONCAT:
                last = x.arg(x.num_args() - 1)
                if z3.is_bv_value(last) and last.as_long() != 0:
                    head = [x.arg(i) for i in range(x.num_args() - 1)]
                    off += last.as_long()
                    x = z3.Concat(*(head + [z3.BitVecVal(0, last.size())]))
        parts.append(x.get_id())
    return tuple(sorted(parts)), off & 0xFFFFFFFF


def sel8(arr, a, depth=0):
    """Select(arr, a) with select-over-store resolved syntactically where the index difference is a numeral"""
    ka, oa = _addr_split(a)
    while True:
        if z3.is_app(arr) and arr.decl().kind() == z3.Z3_OP_STORE:
            base, idx, val = arr.arg(0), arr.arg(1), arr.arg(2)
            ki, oi = _addr_split(idx)
            d = z3.BitVecVal((oa - oi) & 0xFFFFFFFF, 32) if ka == ki else z3.simplify(a - idx)
            if z3.is_bv_value(d):
                if d.as_long() == 0:
                    return val
                arr = base
                continue
            if depth > 64:
                return z3.Select(arr, a)
            return z3.If(a == idx, val, sel8(base, a, depth + 1))
        if z3.is_app(arr) and arr.decl().kind() == z3.Z3_OP_ITE and depth <= 64:
            return z3.If(arr.arg(0), sel8(arr.arg(1), a, depth + 1), sel8(arr.arg(2), a, depth + 1))
        return z3.Select(arr, a)
