"""Oracle: PMSA address translation / protection (DDI 0406C B5, TranslateAddressP, CheckPermission)."""
import z3

from . import pseudo as P
from .pseudo import BV, bv, bits, bit, zx, cat

FS_BACKGROUND = 0b00000
FS_PERMISSION = 0b01101
FS_ALIGNMENT = 0b00001


def region_hit(va, drsr, drbar):
    """(hit Bool, unpredictable Bool) for one region"""
    en = bit(drsr, 0)
    rsize = bits(drsr, 5, 1)
    lsbit = zx(rsize, 32) + 1  # 1..32
    unp = z3.And(en, z3.Or(z3.ULT(lsbit, 2),
                           # base address not aligned to the region size: DRBAR<lsbit-1:2> != 0
                           z3.And(z3.UGT(lsbit, 2), (bits(drbar, 31, 2) & ((BV(1, 30) << bits(lsbit - 2, 29, 0)) - 1)) != 0)))
    same = z3.Or(lsbit == 32, z3.LShR(va ^ drbar, lsbit) == 0)
    sub = bits(z3.LShR(va, lsbit - 3), 2, 0)  # va<lsbit-1:lsbit-3>
    sd = bits(z3.LShR(zx(bits(drsr, 15, 8), 32), zx(sub, 32)), 0, 0) == 1
    hit = z3.And(en, same, z3.Or(z3.ULT(lsbit, 8), z3.Not(sd)))
    return hit, unp


def check_permission_fault(ap, ispriv, iswrite, vmsa=False):
    """(abort Bool, unpredictable Bool) -- AP[2:0] table B5-?? / B3-8"""
    ap = bv(ap, 3)
    np = z3.Not(ispriv)
    abort = z3.If(ap == 0, z3.BoolVal(True), z3.If(ap == 1, np, z3.If(ap == 2, z3.And(np, iswrite), z3.If(
        ap == 3, z3.BoolVal(False), z3.If(ap == 5, z3.Or(np, iswrite), z3.If(ap == 6, iswrite, z3.If(
            ap == 7, iswrite if vmsa else z3.BoolVal(False), z3.BoolVal(False))))))))
    unp = z3.Or(ap == 4, z3.BoolVal(False) if vmsa else ap == 7)
    return abort, unp


def translate_p(S, va, ispriv, iswrite, k):
    """returns dict: fault (Bool), fs (5-bit term), unpred (Bool). S: St with sys['drsrs[i]'] etc."""
    m_on = bit(S.sys['sctlr'], 0)
    br = bit(S.sys['sctlr'], 17)
    found = z3.BoolVal(False)
    ap = BV(0, 3)
    unp = z3.BoolVal(False)
    for r in range(k):
        drsr, drbar, dracr = S.sys['drsrs[%d]' % r], S.sys['drbars[%d]' % r], S.sys['dracrs[%d]' % r]
        hit, u = region_hit(va, drsr, drbar)
        unp = z3.Or(unp, u)
        found = z3.Or(found, hit)
        ap = z3.If(hit, bits(dracr, 10, 8), ap)  # higher-numbered region wins
    background = z3.And(z3.Not(found), z3.Or(z3.Not(br), z3.Not(ispriv)))
    ap_eff = z3.If(found, ap, BV(0b011, 3))
    pabort, pun = check_permission_fault(ap_eff, ispriv, iswrite)
    fault = z3.And(m_on, z3.Or(background, pabort))
    fs = z3.If(background, BV(FS_BACKGROUND, 5), BV(FS_PERMISSION, 5))
    unp = z3.And(m_on, z3.Or(unp, z3.And(z3.Not(background), pun)))
    return {'fault': fault, 'fs': fs, 'unpred': unp, 'background': z3.And(m_on, background)}
