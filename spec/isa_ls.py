"""Instruction table: single-register loads and stores (C02).  DDI 0406C A8.8."""
import z3

from . import pseudo as P
from .pseudo import BV, bv, bits, bit, zx, sx, cat
from .isa import (Enc, any_of, in_it_block, last_in_it_block, write_reg_or_pc, mem_u_read, mem_u_write, mem_a_read,
                  mem_a_write, unaligned_support, aborted)
from .state import St, C_

FAM = 'ls'


def wback_of(f):
    return z3.Or(f['P'] == 0, f['W'] == 1)


def addr_calc(S, f, n, offset):
    """offset/pre/post-indexed addressing from P,U,W: returns (address, offset_addr, wback Bool)"""
    base = S.reg(n)
    offset_addr = z3.If(f['U'] == 1, base + offset, base - offset)
    address = z3.If(f['P'] == 1, offset_addr, base)
    return address, offset_addr, wback_of(f)


def load_to_reg(S, t, data, address, guard, pc_ok=True):
    """R[t] = data with the LDR (word) rules: t == 15 -> LoadWritePC (address must be word aligned);
    pre-v7 without unaligned support -> rotated"""
    t = bv(t, 4) if not isinstance(t, int) else BV(t, 4)
    al = bits(address, 1, 0) == 0
    rot = z3.RotateRight(data, zx(bits(address, 1, 0), 32) * 8)
    val = z3.If(z3.Or(unaligned_support(S), al), data, rot)
    T = S.copy()
    T.unpredictable(z3.Not(al))
    T.load_write_pc(data)
    N = S.copy()
    N.set_reg(t, val, guard=z3.And(guard, t != 15))
    S.assign(St.merge(z3.And(guard, t == 15), T, N))


def ldr_imm_arm(S, f):
    address, offset_addr, wback = addr_calc(S, f, f['Rn'], zx(f['imm12'], 32))
    data = mem_u_read(S, address, 4)
    ok = z3.Not(aborted(S))
    S.set_reg(f['Rn'], offset_addr, guard=z3.And(ok, wback, f['Rn'] != 15))
    load_to_reg(S, f['Rt'], data, address, ok)


Enc('LdrImmediateArmA1', 'A', 'cond 010 P U 0 W 1 Rn Rt imm12', family=FAM,
    guard=lambda f: z3.And(f['Rn'] != 15, z3.Not(z3.And(f['P'] == 0, f['W'] == 1)),
                           z3.Not(z3.And(f['Rn'] == 13, f['P'] == 0, f['U'] == 1, f['W'] == 0, f['imm12'] == 4))),
    unpred=lambda f, S: z3.And(wback_of(f), f['Rn'] == f['Rt']), sem=ldr_imm_arm)


def str_imm_arm(S, f):
    address, offset_addr, wback = addr_calc(S, f, f['Rn'], zx(f['imm12'], 32))
    value = S.reg(f['Rt'])  # t == 15: PCStoreValue() = R[15]
    mem_u_write(S, address, 4, value)
    S.set_reg(f['Rn'], offset_addr, guard=z3.And(z3.Not(aborted(S)), wback, f['Rn'] != 15))


Enc('StrImmediateArmA1', 'A', 'cond 010 P U 0 W 0 Rn Rt imm12', family=FAM,
    guard=lambda f: z3.And(z3.Not(z3.And(f['P'] == 0, f['W'] == 1)),
                           z3.Not(z3.And(f['Rn'] == 13, f['P'] == 1, f['U'] == 0, f['W'] == 1, f['imm12'] == 4))),
    unpred=lambda f, S: z3.And(wback_of(f), z3.Or(f['Rn'] == 15, f['Rn'] == f['Rt'])), sem=str_imm_arm)
