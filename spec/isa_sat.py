"""Instruction table: saturating arithmetic, saturate, extend (and add), bit-field, pack, byte-reverse, RBIT, CLZ.
Transcribed from DDI 0406C A8.8 (encoding diagrams, "SEE" exclusions, UNPREDICTABLE lists, operation)."""
import z3

from . import pseudo as P
from .pseudo import BV, bv, bits, bit, zx, sx, cat
from .isa import Enc, any_of
from .state import St, C_, Q_

FAM = 'sat_ext'


def badreg(x):
    return any_of(x, 13, 15)


def is15(x):
    return x == 15


def regs_unpred(thumb, *names):
    """UNPREDICTABLE register numbers: 13 or 15 in Thumb, 15 in ARM"""
    chk = badreg if thumb else is15
    return lambda f, S: z3.Or(*[chk(f[n]) for n in names])


def set_q(S, sat):
    S.set_cbit(Q_, z3.Or(S.cbit(Q_), sat))


# ===========================================================================
# QADD QSUB QDADD QDSUB
# ===========================================================================
def qarith_sem(sub, dbl):
    def sem(S, f):
        m = sx(S.reg(f['Rm']), 34)
        n = sx(S.reg(f['Rn']), 34)
        sat1 = z3.BoolVal(False)
        if dbl:
            d32, sat1 = P.signed_sat_q(n * 2, 32)
            n = sx(d32, 34)
        r, sat2 = P.signed_sat_q(m - n if sub else m + n, 32)
        S.set_reg(f['Rd'], r)
        set_q(S, z3.Or(sat1, sat2))
    return sem


for nm, aop, top, sub, dbl in (('Qadd', '00', '00', False, False), ('Qsub', '01', '10', True, False),
                               ('Qdadd', '10', '01', False, True), ('Qdsub', '11', '11', True, True)):
    Enc(nm + 'A1', 'A', 'cond 00010 %s 0 Rn Rd (0)(0)(0)(0) 0101 Rm' % aop, family=FAM,
        unpred=regs_unpred(False, 'Rd', 'Rn', 'Rm'), sem=qarith_sem(sub, dbl))
    Enc(nm + 'T1', 'T32', '11111 010 1 000 Rn 1111 Rd 10 %s Rm' % top, family=FAM,
        unpred=regs_unpred(True, 'Rd', 'Rn', 'Rm'), sem=qarith_sem(sub, dbl))


# ===========================================================================
# SSAT USAT SSAT16 USAT16
# ===========================================================================
def sat_sem(signed, imm5):
    def sem(S, f):
        kind, amount = P.decode_imm_shift(cat(f['sh'], BV(0, 1)), imm5(f))
        operand, _ = P.shift_c(S.reg(f['Rn']), kind, amount, S.cbit(C_))
        if signed:
            r, sat = P.signed_sat_q_var(operand, zx(f['sat_imm'], 8) + 1)
        else:
            r, sat = P.unsigned_sat_q_var(operand, zx(f['sat_imm'], 8))
        S.set_reg(f['Rd'], bits(r, 31, 0))
        set_q(S, sat)
    return sem


def sat16_sem(signed):
    def sem(S, f):
        x = S.reg(f['Rn'])
        rs, sats = [], []
        for h in (bits(x, 31, 16), bits(x, 15, 0)):
            if signed:
                r, sat = P.signed_sat_q_var(h, zx(f['sat_imm'], 8) + 1)
            else:
                r, sat = P.unsigned_sat_q_var(h, zx(f['sat_imm'], 8))
            rs.append(bits(r, 15, 0))
            sats.append(sat)
        S.set_reg(f['Rd'], cat(*rs))
        set_q(S, z3.Or(*sats))
    return sem


imm32_ = lambda f: cat(f['imm3'], f['imm2'])
for nm, abit, signed in (('Ssat', '0', True), ('Usat', '1', False)):
    Enc(nm + 'A1', 'A', 'cond 01101 %s 1 sat_imm Rd imm5 sh 01 Rn' % abit, family=FAM,
        unpred=regs_unpred(False, 'Rd', 'Rn'), sem=sat_sem(signed, lambda f: f['imm5']))
    Enc(nm + 'T1', 'T32', '11110 (0) 11 %s0 sh 0 Rn 0 imm3 Rd imm2 (0) sat_imm' % abit, family=FAM,
        guard=lambda f: z3.Not(z3.And(f['sh'] == 1, imm32_(f) == 0)),  # SEE SSAT16 / USAT16
        unpred=regs_unpred(True, 'Rd', 'Rn'), sem=sat_sem(signed, imm32_))
    Enc(nm + '16A1', 'A', 'cond 01101 %s 10 sat_imm:4 Rd (1)(1)(1)(1) 0011 Rn' % abit, family=FAM,
        unpred=regs_unpred(False, 'Rd', 'Rn'), sem=sat16_sem(signed))
    Enc(nm + '16T1', 'T32', '11110 (0) 11 %s0 1 0 Rn 0 000 Rd 00 (0)(0) sat_imm:4' % abit, family=FAM,
        unpred=regs_unpred(True, 'Rd', 'Rn'), sem=sat16_sem(signed))


# ===========================================================================
# SXTB SXTH SXTB16 UXTB UXTH UXTB16 and the extend-and-add forms
# ===========================================================================
def ext_sem(kind, signed, add, t16=False):
    ext = sx if signed else zx

    def sem(S, f):
        m = zx(f['Rm'], 4) if t16 else f['Rm']
        d = zx(f['Rd'], 4) if t16 else f['Rd']
        x = S.reg(m)
        rot = x if t16 else z3.RotateRight(x, zx(f['rotate'], 32) * 8)
        n = S.reg(f['Rn']) if add else None
        if kind == 'b':
            v = ext(bits(rot, 7, 0), 32)
            if add:
                v = n + v
        elif kind == 'h':
            v = ext(bits(rot, 15, 0), 32)
            if add:
                v = n + v
        else:
            lo = ext(bits(rot, 7, 0), 16)
            hi = ext(bits(rot, 23, 16), 16)
            if add:
                lo = bits(n, 15, 0) + lo
                hi = bits(n, 31, 16) + hi
            v = cat(hi, lo)
        S.set_reg(d, v)
    return sem


# (mnemonic stem, kind, ARM opcode bits 22:20, Thumb op1 bits 22:20)
EXT = (('xtab16', 'b16', '00', '01'), ('xtab', 'b', '10', '10'), ('xtah', 'h', '11', '00'))
for su, signed in (('S', True), ('U', False)):
    abit = '0' if signed else '1'
    for stem, kind, aop, top in EXT:
        addn = su + stem                            # e.g. Sxtab16
        plain = su + stem.replace('a', '', 1)       # e.g. Sxtb16
        tu = '0' if signed else '1'
        Enc(addn + 'A1', 'A', 'cond 01101 %s %s Rn Rd rotate (0)(0) 0111 Rm' % (abit, aop), family=FAM,
            guard=lambda f: f['Rn'] != 15, unpred=regs_unpred(False, 'Rd', 'Rm'), sem=ext_sem(kind, signed, True))
        Enc(plain + 'A1', 'A', 'cond 01101 %s %s 1111 Rd rotate (0)(0) 0111 Rm' % (abit, aop), family=FAM,
            unpred=regs_unpred(False, 'Rd', 'Rm'), sem=ext_sem(kind, signed, False))
        Enc(addn + 'T1', 'T32', '11111 010 0 %s%s Rn 1111 Rd 1 (0) rotate Rm' % (top, tu), family=FAM,
            guard=lambda f: f['Rn'] != 15,
            unpred=lambda f, S: z3.Or(badreg(f['Rd']), f['Rn'] == 13, badreg(f['Rm'])),
            sem=ext_sem(kind, signed, True))
        Enc(plain + ('T1' if kind == 'b16' else 'T2'), 'T32',
            '11111 010 0 %s%s 1111 1111 Rd 1 (0) rotate Rm' % (top, tu), family=FAM,
            unpred=regs_unpred(True, 'Rd', 'Rm'), sem=ext_sem(kind, signed, False))
for nm, code, kind, signed in (('Sxth', '00', 'h', True), ('Sxtb', '01', 'b', True), ('Uxth', '10', 'h', False),
                               ('Uxtb', '11', 'b', False)):
    Enc(nm + 'T1', 'T16', '1011 0010 %s Rm:3 Rd:3' % code, family=FAM, sem=ext_sem(kind, signed, False, t16=True))


# ===========================================================================
# BFC BFI SBFX UBFX
# ===========================================================================
def bf_insert_sem(lsb, clear):
    def sem(S, f):
        msbit = zx(f['msb'], 32)
        lsbit = zx(lsb(f), 32)
        S.unpredictable(z3.ULT(msbit, lsbit))
        old = S.reg(f['Rd'])
        src = BV(0, 32) if clear else S.reg(f['Rn'])
        res = []
        # bit i of the result: inside [lsbit, msbit] it is source bit (i - lsbit), else unchanged
        shifted = src << lsbit
        for i in range(31, -1, -1):
            inside = z3.And(z3.ULE(lsbit, BV(i, 32)), z3.ULE(BV(i, 32), msbit))
            res.append(z3.If(inside, bits(shifted, i, i), bits(old, i, i)))
        S.set_reg(f['Rd'], cat(*res))
    return sem


def bf_extract_sem(lsb, signed):
    def sem(S, f):
        lsbit = zx(lsb(f), 32)
        wm1 = zx(f['widthm1'], 32)
        msbit = lsbit + wm1
        S.unpredictable(z3.UGT(msbit, 31))
        x = S.reg(f['Rn']) << (BV(31, 32) - msbit)      # field now occupies bits 31 .. 31-widthm1
        sh = BV(31, 32) - wm1
        S.set_reg(f['Rd'], (x >> sh) if signed else z3.LShR(x, sh))
    return sem


a_lsb = lambda f: f['lsb']
Enc('BfcA1', 'A', 'cond 0111110 msb Rd lsb 001 1111', family=FAM, unpred=regs_unpred(False, 'Rd'),
    sem=bf_insert_sem(a_lsb, True))
Enc('BfiA1', 'A', 'cond 0111110 msb Rd lsb 001 Rn', family=FAM, guard=lambda f: f['Rn'] != 15,
    unpred=regs_unpred(False, 'Rd'), sem=bf_insert_sem(a_lsb, False),
    known=[('F009', lambda f, S: f['lsb'] != 0)])
Enc('SbfxA1', 'A', 'cond 0111101 widthm1 Rd lsb 101 Rn', family=FAM, unpred=regs_unpred(False, 'Rd', 'Rn'),
    sem=bf_extract_sem(a_lsb, True))
Enc('UbfxA1', 'A', 'cond 0111111 widthm1 Rd lsb 101 Rn', family=FAM, unpred=regs_unpred(False, 'Rd', 'Rn'),
    sem=bf_extract_sem(a_lsb, False))
Enc('BfcT1', 'T32', '11110 (0) 11 011 0 1111 0 imm3 Rd imm2 (0) msb', family=FAM, unpred=regs_unpred(True, 'Rd'),
    sem=bf_insert_sem(imm32_, True))
Enc('BfiT1', 'T32', '11110 (0) 11 011 0 Rn 0 imm3 Rd imm2 (0) msb', family=FAM, guard=lambda f: f['Rn'] != 15,
    unpred=lambda f, S: z3.Or(badreg(f['Rd']), f['Rn'] == 13), sem=bf_insert_sem(imm32_, False),
    known=[('F009', lambda f, S: imm32_(f) != 0)])
Enc('SbfxT1', 'T32', '11110 (0) 11 010 0 Rn 0 imm3 Rd imm2 (0) widthm1', family=FAM,
    unpred=regs_unpred(True, 'Rd', 'Rn'), sem=bf_extract_sem(imm32_, True))
Enc('UbfxT1', 'T32', '11110 (0) 11 110 0 Rn 0 imm3 Rd imm2 (0) widthm1', family=FAM,
    unpred=regs_unpred(True, 'Rd', 'Rn'), sem=bf_extract_sem(imm32_, False))


# ===========================================================================
# PKHBT / PKHTB
# ===========================================================================
def pkh_sem(imm5):
    def sem(S, f):
        tbform = f['tb'] == 1
        kind, amount = P.decode_imm_shift(cat(f['tb'], BV(0, 1)), imm5(f))
        op2, _ = P.shift_c(S.reg(f['Rm']), kind, amount, S.cbit(C_))
        n = S.reg(f['Rn'])
        lo = z3.If(tbform, bits(op2, 15, 0), bits(n, 15, 0))
        hi = z3.If(tbform, bits(n, 31, 16), bits(op2, 31, 16))
        S.set_reg(f['Rd'], cat(hi, lo))
    return sem


Enc('PkhA1', 'A', 'cond 01101000 Rn Rd imm5 tb 01 Rm', family=FAM, unpred=regs_unpred(False, 'Rd', 'Rn', 'Rm'),
    sem=pkh_sem(lambda f: f['imm5']))
Enc('PkhT1', 'T32', '11101 01 0110 S Rn (0) imm3 Rd imm2 tb T Rm', family=FAM,
    undefined=lambda f, S: z3.Or(f['S'] == 1, f['T'] == 1), unpred=regs_unpred(True, 'Rd', 'Rn', 'Rm'),
    sem=pkh_sem(imm32_))


# ===========================================================================
# REV REV16 REVSH RBIT CLZ
# ===========================================================================
def by(x, i):
    return bits(x, 8 * i + 7, 8 * i)


def rev(x):
    return cat(by(x, 0), by(x, 1), by(x, 2), by(x, 3))


def rev16(x):
    return cat(by(x, 2), by(x, 3), by(x, 0), by(x, 1))


def revsh(x):
    return cat(sx(by(x, 0), 24), by(x, 1))


def rbit(x):
    return cat(*[bits(x, i, i) for i in range(32)])


def clz(x):
    return P.count_leading_zeros(x)


def unary_sem(fn, t16=False):
    def sem(S, f):
        m = zx(f['Rm'], 4) if t16 else f['Rm']
        d = zx(f['Rd'], 4) if t16 else f['Rd']
        S.set_reg(d, fn(S.reg(m)))
    return sem


def t32_unary_unpred(f, S):
    return z3.Or(f['Rm2'] != f['Rm'], badreg(f['Rd']), badreg(f['Rm']))


AU = 'cond %s (1)(1)(1)(1) Rd (1)(1)(1)(1) %s Rm'
TU = '11111 010 1 0%s Rm2:4 1111 Rd 1 0%s Rm'
for nm, fn, a1, a2, t1, t2, t16, arch in (('Rev', rev, '01101011', '0011', '01', '00', '00', 4),
                                          ('Rev16', rev16, '01101011', '1011', '01', '01', '01', 4),
                                          ('Revsh', revsh, '01101111', '1011', '01', '11', '11', 4),
                                          ('Rbit', rbit, '01101111', '0011', '01', '10', None, 4),
                                          ('Clz', clz, '00010110', '0001', '11', '00', None, 4)):
    Enc(nm + 'A1', 'A', AU % (a1, a2), family=FAM, arch=arch, unpred=regs_unpred(False, 'Rd', 'Rm'),
        sem=unary_sem(fn))
    Enc(nm + ('T2' if t16 else 'T1'), 'T32', TU % (t1, t2), family=FAM, unpred=t32_unary_unpred, sem=unary_sem(fn))
    if t16:
        Enc(nm + 'T1', 'T16', '1011 1010 %s Rm:3 Rd:3' % t16, family=FAM, sem=unary_sem(fn, t16=True))
