"""Instruction table: halfword / signed / dual / unprivileged-halfword / exclusive loads and stores.
DDI 0406C A8.8: LDRH STRH LDRSB LDRSH (immediate, literal, register), LDRD STRD (immediate, literal, register),
LDRHT STRHT LDRSBT LDRSHT, LDREX STREX {B,H,D}, CLREX.

Modelling notes
* halfword accesses at an odd address without UnalignedSupport() load / store an UNKNOWN value: excluded
  (operation-time UNPREDICTABLE in this table) unless the access takes an alignment fault.
* the repository's exclusive monitors are stubs (IsExclusiveLocal() is constant FALSE, Mark/Clear are no-ops):
  ExclusiveMonitorsPass() therefore either takes its alignment fault or returns FALSE, so STREX* never writes
  memory and always returns status 1; LDREX* is a plain MemA load; CLREX is a NOP.
* MemU_unpriv == MemU here (MPU/MMU off: no permission checks).
"""
import z3

from .pseudo import BV, bv, bits, bit, zx, sx, cat
from .isa import (Enc, any_of, mem_u_read, mem_u_write, mem_a_read, mem_a_write, unaligned_support, aborted,
                  _data_abort, translate_check)

FAM = 'ls_hd'
FAM_AUX = 'ls_hd_aux'  # auxiliary rows (no repository class of that name): run with expect_class = false


def r4(x):
    return x if x.size() == 4 else zx(x, 4)


def badreg(x):
    return any_of(x, 13, 15)


def AND(*a):
    return z3.And(*a)


def OR(*a):
    return z3.Or(*a)


def NOT(a):
    return z3.Not(a)


# ---------------------------------------------------------------------------
# the memory-access part of the operation (after the address computation)
# ---------------------------------------------------------------------------
LOADS = {'ldrh': (2, False), 'ldrsh': (2, True), 'ldrsb': (1, True)}


def half_unknown(S, address):
    """halfword data is UNKNOWN: !UnalignedSupport() && address<0> == '1' (and the access did not abort)"""
    S.unpredictable(AND(NOT(aborted(S)), NOT(unaligned_support(S)), bit(address, 0)))


def transfer(S, kind, address, t, t2, wb):
    """wb: None or (n, offset_addr, wback Bool).  Statement order as in the manual's pseudocode."""
    def writeback():
        if wb is not None:
            n, offset_addr, wback = wb
            S.set_reg(n, offset_addr, guard=AND(NOT(aborted(S)), wback))
    if kind in LOADS:
        size, signed = LOADS[kind]
        data = mem_u_read(S, address, size)
        if size == 2:
            half_unknown(S, address)
        writeback()
        S.set_reg(t, sx(data, 32) if signed else zx(data, 32), guard=NOT(aborted(S)))
    elif kind == 'strh':
        mem_u_write(S, address, 2, bits(S.reg(t), 15, 0))
        half_unknown(S, address)
        writeback()
    elif kind == 'ldrd':
        w1 = mem_a_read(S, address, 4)
        S.set_reg(t, w1, guard=NOT(aborted(S)))
        w2 = mem_a_read(S, address + 4, 4)
        S.set_reg(t2, w2, guard=NOT(aborted(S)))
        writeback()
    elif kind == 'strd':
        mem_a_write(S, address, 4, S.reg(t))
        mem_a_write(S, address + 4, 4, S.reg(t2))
        writeback()
    else:
        raise AssertionError(kind)


def wback_of(f):
    return OR(f['P'] == 0, f['W'] == 1)


def regs_of(f):
    t = r4(f['Rt'])
    t2 = f['Rt2'] if 'Rt2' in f else t + 1
    return t, t2


def sem_puw(kind, offset):
    """offset / pre-indexed / post-indexed from P, U, W.  offset(S, f) -> 32-bit term"""
    def sem(S, f):
        n = r4(f['Rn'])
        t, t2 = regs_of(f)
        base = S.reg(n)
        off = offset(S, f)
        offset_addr = z3.If(f['U'] == 1, base + off, base - off)
        address = z3.If(f['P'] == 1, offset_addr, base)
        transfer(S, kind, address, t, t2, (n, offset_addr, wback_of(f)))
    return sem


def sem_offset(kind, offset, n_of=lambda f: r4(f['Rn'])):
    """index = TRUE, add = TRUE, wback = FALSE"""
    def sem(S, f):
        t, t2 = regs_of(f)
        address = S.reg(n_of(f)) + offset(S, f)
        transfer(S, kind, address, t, t2, None)
    return sem


def sem_literal(kind, imm):
    def sem(S, f):
        t, t2 = regs_of(f)
        base = S.pc_read() & BV(0xFFFFFFFC, 32)
        off = imm(f)
        address = z3.If(f['U'] == 1, base + off, base - off)
        transfer(S, kind, address, t, t2, None)
    return sem


def sem_unpriv_post(kind, offset):
    """ARM encodings of LDRHT & co: postindex = TRUE (always write-back)"""
    def sem(S, f):
        S.unpriv_access = True  # MemU_unpriv: User permissions whatever the mode
        S.unpredictable(S.is_mode('hyp'))
        n = r4(f['Rn'])
        t, t2 = regs_of(f)
        base = S.reg(n)
        off = offset(S, f)
        offset_addr = z3.If(f['U'] == 1, base + off, base - off)
        transfer(S, kind, base, t, t2, (n, offset_addr, z3.BoolVal(True)))
    return sem


def sem_unpriv_offset(kind, offset):
    """Thumb encodings of LDRHT & co: postindex = FALSE, add = TRUE, no write-back"""
    inner = sem_offset(kind, offset)

    def sem(S, f):
        S.unpriv_access = True
        S.unpredictable(S.is_mode('hyp'))
        inner(S, f)
    return sem


def imm44(S, f):
    return zx(cat(f['imm4H'], f['imm4L']), 32)


def imm8(S, f):
    return zx(f['imm8'], 32)


def imm8x4(S, f):
    return zx(cat(f['imm8'], BV(0, 2)), 32)


def imm12(S, f):
    return zx(f['imm12'], 32)


def rm_plain(S, f):
    return S.reg(r4(f['Rm']))


def rm_lsl(S, f):
    return S.reg(f['Rm']) << zx(f['imm2'], 32)


def not_unpriv(f):
    """P == '0' && W == '1' SEE LDRHT / STRHT / ..."""
    return NOT(AND(f['P'] == 0, f['W'] == 1))


# ===========================================================================
# ARM: extra load/store instructions
# ===========================================================================
# name prefix, kind, L bit, op2 (bits 7:4)
ARM_X = [('Ldrh', 'ldrh', 1, '1011'), ('Strh', 'strh', 0, '1011'), ('Ldrsb', 'ldrsb', 1, '1101'),
         ('Ldrsh', 'ldrsh', 1, '1111'), ('Ldrd', 'ldrd', 0, '1101'), ('Strd', 'strd', 0, '1111')]


def unp_arm_x(kind, register_form):
    load = kind != 'strh' and kind != 'strd'
    dual = kind in ('ldrd', 'strd')

    def unp(f, S):
        t, t2 = regs_of(f)
        n = f['Rn']
        wback = wback_of(f)
        cs = []
        if dual:
            cs += [bit(f['Rt'], 0), AND(f['P'] == 0, f['W'] == 1), t2 == 15]
            same = OR(n == t, n == t2)
        else:
            cs += [t == 15]
            same = n == t
        if load and not register_form:
            cs.append(AND(wback, same))  # n == 15 is the literal form
        else:
            cs.append(AND(wback, OR(n == 15, same)))
        if register_form:
            m = f['Rm']
            cs.append(m == 15)
            if kind == 'ldrd':
                cs.append(OR(m == t, m == t2))
        return OR(*cs)
    return unp


for pre, kind, L, op2 in ARM_X:
    dual = kind in ('ldrd', 'strd')
    load = kind not in ('strh', 'strd')
    mid = {'Ldrh': 'ImmediateArmA1', 'Strh': 'ImmediateArmA1'}.get(pre, 'ImmediateA1')
    gs = []
    if load:
        gs.append(lambda f: f['Rn'] != 15)
    if not dual:
        gs.append(not_unpriv)
    Enc(pre + mid, 'A', 'cond 000 P U 1 W %d Rn Rt imm4H %s imm4L' % (L, op2), family=FAM,
        guard=(lambda gs: lambda f: AND(z3.BoolVal(True), *[g(f) for g in gs]))(list(gs)),
        unpred=unp_arm_x(kind, False), sem=sem_puw(kind, imm44))
    Enc(pre + 'RegisterA1', 'A', 'cond 000 P U 0 W %d Rn Rt (0)(0)(0)(0) %s Rm' % (L, op2), family=FAM,
        guard=None if dual else not_unpriv, unpred=unp_arm_x(kind, True), sem=sem_puw(kind, rm_plain))
    if load:
        Enc(pre + 'LiteralA1', 'A', 'cond 000 (1) U 1 (0) %d 1111 Rt imm4H %s imm4L' % (L, op2), family=FAM,
            unpred=(lambda f, S: OR(bit(f['Rt'], 0), f['Rt'] == 14)) if dual else (lambda f, S: f['Rt'] == 15),
            sem=sem_literal(kind, lambda f: zx(cat(f['imm4H'], f['imm4L']), 32)))

# unprivileged (ARMv6T2): A1 immediate, A2 register; always post-indexed
for pre, kind, L, op2 in ARM_X[:4]:
    Enc(pre + 'tA1', 'A', 'cond 0000 U 1 1 %d Rn Rt imm4H %s imm4L' % (L, op2), family=FAM,
        unpred=lambda f, S: OR(f['Rt'] == 15, f['Rn'] == 15, f['Rn'] == f['Rt']),
        sem=sem_unpriv_post(kind, imm44))
    Enc(pre + 'tA2', 'A', 'cond 0000 U 0 1 %d Rn Rt (0)(0)(0)(0) %s Rm' % (L, op2), family=FAM,
        unpred=lambda f, S: OR(f['Rt'] == 15, f['Rn'] == 15, f['Rn'] == f['Rt'], f['Rm'] == 15),
        sem=sem_unpriv_post(kind, rm_plain))

# ===========================================================================
# Thumb 16-bit
# ===========================================================================
Enc('StrhImmediateThumbT1', 'T16', '1000 0 imm5 Rn:3 Rt:3', family=FAM,
    sem=sem_offset('strh', lambda S, f: zx(cat(f['imm5'], BV(0, 1)), 32)))
Enc('LdrhImmediateThumbT1', 'T16', '1000 1 imm5 Rn:3 Rt:3', family=FAM,
    sem=sem_offset('ldrh', lambda S, f: zx(cat(f['imm5'], BV(0, 1)), 32)))
for pre, kind, opb in (('Strh', 'strh', '001'), ('Ldrsb', 'ldrsb', '011'), ('Ldrh', 'ldrh', '101'),
                       ('Ldrsh', 'ldrsh', '111')):
    Enc(pre + 'RegisterT1', 'T16', '0101 %s Rm:3 Rn:3 Rt:3' % opb, family=FAM, sem=sem_offset(kind, rm_plain))

# ===========================================================================
# Thumb 32-bit: single halfword / signed byte / signed halfword
# ===========================================================================
# prefix, kind, S (sign) bit, size bits, names of the immediate encodings (imm12, imm8+PUW), register, unpriv
T32_X = [('Ldrh', 'ldrh', 0, '01', 'LdrhImmediateThumbT2', 'LdrhImmediateThumbT3', 'LdrhRegisterT2', 'LdrhtT1'),
         ('Ldrsb', 'ldrsb', 1, '00', 'LdrsbImmediateT1', 'LdrsbImmediateT2', 'LdrsbRegisterT2', 'LdrsbtT1'),
         ('Ldrsh', 'ldrsh', 1, '01', 'LdrshImmediateT1', 'LdrshImmediateT2', 'LdrshRegisterT2', 'LdrshtT1')]


def is_hint_puw(f):
    """Rt == '1111' && P == '1' && U == '0' && W == '0'  SEE memory hints / PLI"""
    return AND(f['Rt'] == 15, f['P'] == 1, f['U'] == 0, f['W'] == 0)


def is_undef_pw(f):
    return AND(f['P'] == 0, f['W'] == 0)


def is_unpriv_puw(f):
    return AND(f['P'] == 1, f['U'] == 1, f['W'] == 0)


for pre, kind, s, sz, n_imm12, n_imm8, n_reg, n_unpriv in T32_X:
    Enc(n_imm12, 'T32', '11111 00 %d 1 %s 1 Rn Rt imm12' % (s, sz), family=FAM,
        guard=lambda f: AND(f['Rn'] != 15, f['Rt'] != 15), unpred=lambda f, S: f['Rt'] == 13,
        sem=sem_offset(kind, imm12))
    Enc(n_imm8, 'T32', '11111 00 %d 0 %s 1 Rn Rt 1 P U W imm8' % (s, sz), family=FAM,
        guard=lambda f: AND(f['Rn'] != 15, NOT(is_hint_puw(f)), NOT(is_unpriv_puw(f)), NOT(is_undef_pw(f))),
        unpred=lambda f, S: OR(badreg(f['Rt']), AND(f['W'] == 1, f['Rn'] == f['Rt'])),
        sem=sem_puw(kind, imm8))
    # "if P == '0' && W == '0' then UNDEFINED": the repository's decoder treats this region as unallocated (returns
    # no class), which is the same behaviour; it is claimed by an auxiliary row (run with expect_class = false)
    Enc(n_imm8 + '_undef', 'T32', '11111 00 %d 0 %s 1 Rn Rt 1 0 U 0 imm8' % (s, sz), family=FAM_AUX,
        guard=lambda f: f['Rn'] != 15, undefined=lambda f, S: True, sem=lambda S, f: None)
    Enc(pre + 'LiteralT1', 'T32', '11111 00 %d U %s 1 1111 Rt imm12' % (s, sz), family=FAM,
        guard=lambda f: f['Rt'] != 15, unpred=lambda f, S: f['Rt'] == 13,
        sem=sem_literal(kind, lambda f: zx(f['imm12'], 32)))
    Enc(n_reg, 'T32', '11111 00 %d 0 %s 1 Rn Rt 000000 imm2 Rm' % (s, sz), family=FAM,
        guard=lambda f: AND(f['Rn'] != 15, f['Rt'] != 15),
        unpred=lambda f, S: OR(f['Rt'] == 13, badreg(f['Rm'])), sem=sem_offset(kind, rm_lsl))
    Enc(n_unpriv, 'T32', '11111 00 %d 0 %s 1 Rn Rt 1110 imm8' % (s, sz), family=FAM,
        guard=lambda f: f['Rn'] != 15, unpred=lambda f, S: badreg(f['Rt']), sem=sem_unpriv_offset(kind, imm8))

Enc('StrhImmediateThumbT2', 'T32', '11111 00 0 1 01 0 Rn Rt imm12', family=FAM,
    undefined=lambda f, S: f['Rn'] == 15, unpred=lambda f, S: badreg(f['Rt']), sem=sem_offset('strh', imm12))
Enc('StrhImmediateThumbT3', 'T32', '11111 00 0 0 01 0 Rn Rt 1 P U W imm8', family=FAM,
    guard=lambda f: AND(NOT(is_unpriv_puw(f)), NOT(is_undef_pw(f))), undefined=lambda f, S: f['Rn'] == 15,
    unpred=lambda f, S: OR(badreg(f['Rt']), AND(f['W'] == 1, f['Rn'] == f['Rt'])), sem=sem_puw('strh', imm8))
Enc('StrhImmediateThumbT3_undef', 'T32', '11111 00 0 0 01 0 Rn Rt 1 0 U 0 imm8', family=FAM_AUX,
    undefined=lambda f, S: True, sem=lambda S, f: None)
Enc('StrhRegisterT2', 'T32', '11111 00 0 0 01 0 Rn Rt 000000 imm2 Rm', family=FAM,
    undefined=lambda f, S: f['Rn'] == 15, unpred=lambda f, S: OR(badreg(f['Rt']), badreg(f['Rm'])),
    sem=sem_offset('strh', rm_lsl))
Enc('StrhtT1', 'T32', '11111 00 0 0 01 0 Rn Rt 1110 imm8', family=FAM,
    undefined=lambda f, S: f['Rn'] == 15, unpred=lambda f, S: badreg(f['Rt']), sem=sem_unpriv_offset('strh', imm8))

# ===========================================================================
# Thumb 32-bit: dual
# ===========================================================================
def not_related(f):
    """P == '0' && W == '0' SEE "Related encodings" (exclusives, table branch)"""
    return NOT(AND(f['P'] == 0, f['W'] == 0))


def unp_t_dual_regs(f):
    return OR(badreg(f['Rt']), badreg(f['Rt2']))


Enc('LdrdImmediateT1', 'T32', '1110 100 P U 1 W 1 Rn Rt Rt2 imm8', family=FAM,
    guard=lambda f: AND(not_related(f), f['Rn'] != 15),
    unpred=lambda f, S: OR(AND(f['W'] == 1, OR(f['Rn'] == f['Rt'], f['Rn'] == f['Rt2'])), unp_t_dual_regs(f),
                           f['Rt'] == f['Rt2']),
    sem=sem_puw('ldrd', imm8x4))
Enc('LdrdLiteralT1', 'T32', '1110 100 P U 1 W 1 1111 Rt Rt2 imm8', family=FAM, guard=not_related,
    unpred=lambda f, S: OR(unp_t_dual_regs(f), f['Rt'] == f['Rt2'], f['W'] == 1),
    sem=sem_literal('ldrd', lambda f: zx(cat(f['imm8'], BV(0, 2)), 32)))
Enc('StrdImmediateT1', 'T32', '1110 100 P U 1 W 0 Rn Rt Rt2 imm8', family=FAM, guard=not_related,
    unpred=lambda f, S: OR(AND(f['W'] == 1, OR(f['Rn'] == f['Rt'], f['Rn'] == f['Rt2'])), f['Rn'] == 15,
                           unp_t_dual_regs(f)),
    sem=sem_puw('strd', imm8x4))

# ===========================================================================
# exclusives
# ===========================================================================
def excl_unaligned(S, address, size):
    return address != S._align(address, size)


def ldrex_sem(size, imm=None):
    def sem(S, f):
        address = S.reg(f['Rn'])
        if imm is not None:
            address = address + imm(S, f)
        # SetExclusiveMonitors(address, size): the repository's monitors keep no state; its TranslateAddress() call
        # comes before the alignment check of the MemA access
        if size == 8:
            t, t2 = regs_of(f)
            # LDREXD requires a doubleword-aligned address: AlignmentFault(address, FALSE), checked first
            _data_abort(S, bits(address, 2, 0) != 0, address, False, 0b00001, True)
            translate_check(S, address, False)
            w1 = mem_a_read(S, address, 4)
            S.set_reg(t, w1, guard=NOT(aborted(S)))
            w2 = mem_a_read(S, address + 4, 4)
            S.set_reg(t2, w2, guard=NOT(aborted(S)))
        else:
            translate_check(S, address, False)
            data = mem_a_read(S, address, size)
            S.set_reg(f['Rt'], zx(data, 32), guard=NOT(aborted(S)))
    return sem


def strex_sem(size, imm=None):
    def sem(S, f):
        address = S.reg(f['Rn'])
        if imm is not None:
            address = address + imm(S, f)
        # ExclusiveMonitorsPass(address, size): alignment fault (as a write) for an unaligned address, whatever
        # SCTLR.A/U say; otherwise IsExclusiveLocal() -- constant FALSE in the repository -> not passed
        _data_abort(S, excl_unaligned(S, address, size), address, True, 0b00001, True)
        translate_check(S, address, True)
        S.set_reg(f['Rd'], BV(1, 32), guard=NOT(aborted(S)))
    return sem


ONES = '(1)(1)(1)(1)'
# suffix, size, ARM op (bits 22:21), Thumb op (bits 7:4 of hw2)
for suf, size, aop, top in (('', 4, '00', None), ('b', 1, '10', '0100'), ('h', 2, '11', '0101'), ('d', 8, '01', '0111')):
    if size == 8:
        unp_l = lambda f, S: OR(bit(f['Rt'], 0), f['Rt'] == 14, f['Rn'] == 15)
        unp_s = lambda f, S: OR(f['Rd'] == 15, bit(f['Rt'], 0), f['Rt'] == 14, f['Rn'] == 15, f['Rd'] == f['Rn'],
                                f['Rd'] == f['Rt'], f['Rd'] == f['Rt'] + 1)
    else:
        unp_l = lambda f, S: OR(f['Rt'] == 15, f['Rn'] == 15)
        unp_s = lambda f, S: OR(f['Rd'] == 15, f['Rt'] == 15, f['Rn'] == 15, f['Rd'] == f['Rn'], f['Rd'] == f['Rt'])
    Enc('Ldrex%sA1' % suf, 'A', 'cond 0001 1 %s 1 Rn Rt %s 1001 %s' % (aop, ONES, ONES), family=FAM, unpred=unp_l,
        sem=ldrex_sem(size))
    Enc('Strex%sA1' % suf, 'A', 'cond 0001 1 %s 0 Rn Rd %s 1001 Rt' % (aop, ONES), family=FAM, unpred=unp_s,
        sem=strex_sem(size))

Enc('LdrexT1', 'T32', '11101 00 0 0 1 0 1 Rn Rt %s imm8' % ONES, family=FAM,
    unpred=lambda f, S: OR(badreg(f['Rt']), f['Rn'] == 15), sem=ldrex_sem(4, imm8x4))
Enc('StrexT1', 'T32', '11101 00 0 0 1 0 0 Rn Rt Rd imm8', family=FAM,
    unpred=lambda f, S: OR(badreg(f['Rd']), badreg(f['Rt']), f['Rn'] == 15, f['Rd'] == f['Rn'], f['Rd'] == f['Rt']),
    sem=strex_sem(4, imm8x4))
for suf, size, top in (('b', 1, '0100'), ('h', 2, '0101')):
    Enc('Ldrex%sT1' % suf, 'T32', '11101 000110 1 Rn Rt %s %s %s' % (ONES, top, ONES), family=FAM,
        unpred=lambda f, S: OR(badreg(f['Rt']), f['Rn'] == 15), sem=ldrex_sem(size))
    Enc('Strex%sT1' % suf, 'T32', '11101 000110 0 Rn Rt %s %s Rd' % (ONES, top), family=FAM,
        unpred=lambda f, S: OR(badreg(f['Rd']), badreg(f['Rt']), f['Rn'] == 15, f['Rd'] == f['Rn'],
                               f['Rd'] == f['Rt']),
        sem=strex_sem(size))
Enc('LdrexdT1', 'T32', '11101 000110 1 Rn Rt Rt2 0111 %s' % ONES, family=FAM,
    unpred=lambda f, S: OR(badreg(f['Rt']), badreg(f['Rt2']), f['Rt'] == f['Rt2'], f['Rn'] == 15),
    sem=ldrex_sem(8))
Enc('StrexdT1', 'T32', '11101 000110 0 Rn Rt Rt2 0111 Rd', family=FAM,
    unpred=lambda f, S: OR(badreg(f['Rd']), badreg(f['Rt']), badreg(f['Rt2']), f['Rn'] == 15, f['Rd'] == f['Rn'],
                           f['Rd'] == f['Rt'], f['Rd'] == f['Rt2']),
    sem=strex_sem(8))


def clrex_sem(S, f):
    pass  # ClearExclusiveLocal(ProcessorID()): no state in the repository


Enc('ClrexA1', 'A', '1111 0101 0111 %s %s (0)(0)(0)(0) 0001 %s' % (ONES, ONES, ONES), family=FAM, sem=clrex_sem)
Enc('ClrexT1', 'T32', '11110 0 111 01 1 %s 10 (0) 0 %s 0010 %s' % (ONES, ONES, ONES), family=FAM, sem=clrex_sem)
