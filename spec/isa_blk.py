"""Instruction table: block transfers and stack operations (family blk).  DDI 0406C A8.8 / B9.3.

LDM/LDMIA/LDMFD, LDMDA, LDMDB, LDMIB, STM/STMIA, STMDA, STMDB, STMIB, PUSH, POP, LDM (user registers),
STM (user registers), LDM (exception return), SRS, RFE.

WINDOW mechanism.  The code under test walks the 16 bits of the register list and forks on every one that is
symbolic, so a fully symbolic list costs 65536 paths per encoding.  Every diagram below therefore spells the
register list as sixteen one-bit fields ``r15:1 r14:1 ... r0:1`` (Thumb P/M bits are named r15/r14, the 8-bit
Thumb lists r7..r0).  The ``fix`` option of ``vf.step.mk_step`` can then pin any subset of list bits while the
others stay symbolic.  ``window(sym, pattern)`` builds such a ``fix`` dictionary; ``PLAN`` lists the standard
windows and ``python3-vt -m spec.isa_blk`` runs them (see reports/blk.md).

Formulation.  The operation pseudocode transfers the registers of the list in ascending register order to
ascending word addresses.  It is stated here per register for loads (register i reads the word at
start + 4*BitCount(registers<i-1:0>)) and per memory slot for stores (slot j = the word at start + 4*j receives
the j-th lowest register of the list and is written iff j < BitCount(registers)); both are the pseudocode's
loop with the running ``address`` variable eliminated.  All words of one block transfer have the same
alignment (start mod 4), so the alignment fault of MemA is the fault of the first access, at ``start``.
"""
if __name__ == '__main__':  # python3-vt -m spec.isa_blk ...: run the standard plan (see main() at the end)
    import sys as _sys
    from spec import isa_blk as _self
    _self.main(_sys.argv)
    _sys.exit(0)

import z3

from . import pseudo as P
from .pseudo import BV, bv, bits, bit, zx, sx, cat
from .isa import (Enc, any_of, in_it_block, last_in_it_block, aborted, _data_abort, mem_u_read, mem_u_write)
from .state import St, MODE, J_, T_

FAM = 'blk'
USR = BV(MODE['usr'], 5)


# ---------------------------------------------------------------------------
# windows
# ---------------------------------------------------------------------------

def RL(hi=15, lo=0):
    """diagram tokens for register-list bits hi..lo as one-bit fields"""
    return ' '.join('r%d:1' % i for i in range(hi, lo - 1, -1))


def window(sym, pattern=0, lo=0, hi=15):
    """``fix`` dictionary: list bits in the mask ``sym`` stay symbolic, all others (within lo..hi) are pinned to
    the corresponding bit of ``pattern``"""
    return {'r%d' % i: (pattern >> i) & 1 for i in range(lo, hi + 1) if not (sym >> i) & 1}


# The standard units: per kind of encoding a list of (label, symbolic list mask, pinned pattern, Rn) where Rn is
# a register number (pinned) or None (Rn symbolic).  A symbolic Rn multiplies the solver cost by ~10 (the base
# address becomes a 16-way selection inside every memory index), so it is combined with small windows only.
# Every list bit is symbolic in at least one window; PC / LR / SP in the list, the base register inside the
# symbolic window (both base-in-list and base-not-in-list), base = lowest / not lowest register of the list,
# the full list, and Rn symbolic are all covered.  Masks are intersected with the list bits an encoding has.
PLAN = {
    # ARM, 16-bit list, Rn: LDM/LDMDA/LDMDB/LDMIB, STM/STMDA/STMDB/STMIB
    'l16n': [('LO', 0x003F, 0x0000, 2), ('LOP', 0x003F, 0xA500, 12), ('MID', 0x0FC0, 0x0001, 0),
             ('HI', 0xF000, 0x0012, 13), ('TOP', 0xE007, 0x0550, 14), ('ALL', 0x0000, 0xFFFF, None),
             ('ALL15', 0x0000, 0x7FFF, None), ('SYMRN', 0x8003, 0x0010, None)],
    # ARM, list + Rn + P/U symbolic: LDM (user registers), LDM (exception return), STM (user registers)
    'lpun': [('LO', 0x000F, 0x0000, 2), ('LOP', 0x000F, 0xA500, 12), ('MID', 0x0F00, 0x0001, 0),
             ('HI', 0xF000, 0x0012, 13), ('ALL', 0x0000, 0xFFFF, None), ('SYMRN', 0x0003, 0x4010, None)],
    # Thumb-2, list bits 15,14,12..0 (LDM) / 14,12..0 (STM), Rn, ITSTATE symbolic
    't32n': [('LO', 0x003F, 0x0000, 2), ('LOP', 0x001F, 0x8500, 12), ('MID', 0x0FC0, 0x0001, 0),
             ('HI', 0xD000, 0x0012, 12), ('TOP', 0xC007, 0x0550, 14), ('SP', 0x4003, 0x0100, 13), ('ALLP', 0x0000, 0x9FFF, None),
             ('ALLM', 0x0000, 0x5FFF, None), ('SYMRN', 0xC003, 0x0010, None)],
    # Thumb 16-bit, 8-bit list, Rn:3
    't16n': [('ALL8', 0x00FF, 0x0000, 1), ('SYMRN', 0x000F, 0x00A0, None)],
    # PUSH / POP, 16-bit list (A1)
    'pp16': [('LO8', 0x00FF, 0x4000, None), ('LO8P', 0x00FF, 0x8000, None), ('HI8', 0xFF00, 0x0001, None),
             ('ALL13', 0x0000, 0xDFFF, None)],  # SP in a multi-register list: UNKNOWN values (excluded)
    # PUSH T2 / POP T2
    'pp32': [('LO8', 0x00FF, 0x4000, None), ('LO8P', 0x00FF, 0x8000, None), ('HI', 0xDF00, 0x0001, None),
             ('ALLP', 0x0000, 0x9FFF, None), ('ALLM', 0x0000, 0x5FFF, None)],
    # PUSH T1 / POP T1: all nine list bits symbolic
    'pp16t': [('ALL9', 0xC0FF, 0x0000, None)],
    # no register list (or a single register): everything symbolic
    'single': [('SYM', 0xFFFF, 0x0000, None)],
}

KIND = {}
for _k, _names in {
        'l16n': 'LdmArmA1 LdmdaA1 LdmdbA1 LdmibA1 StmA1 StmdaA1 StmdbA1 StmibA1',
        'lpun': 'LdmUserRegistersA1 LdmExceptionReturnA1 StmUserRegistersA1',
        't32n': 'LdmThumbT2 LdmdbT1 StmT2 StmdbT1', 't16n': 'LdmThumbT1 StmT1',
        'pp16': 'PushA1 PopArmA1', 'pp32': 'PushT2 PopThumbT2', 'pp16t': 'PushT1 PopThumbT1',
        'single': 'PushA2 PushT3 PopArmA2 PopThumbT3 SrsArmA1 SrsThumbT1 SrsThumbT2 RfeA1 RfeT1 RfeT2'}.items():
    for _n in _names.split():
        KIND[_n] = _k

# option variants run on top of the default machine (ARMv6: SCTLR.U = SCTLR.A = 0, little-endian data)
VARIANTS = {
    'std': {},
    'align': {'sym_sys': {'sctlr': 0x400002}},  # SCTLR.U and SCTLR.A symbolic (alignment faults on ARMv6)
    'be': {'e_sym': True},                      # CPSR.E symbolic
}


def units(name, arch, variant='std', labels=None):
    """[(unit label, mk_step options)] of the standard plan for one encoding"""
    from .isa import ISA
    E = ISA[name]
    have = {n for k, n, w, v in E.items if k == 'f'}
    out = []
    for label, sym, pat, rn in PLAN[KIND[name]]:
        if labels and label not in labels:
            continue
        fix = {k: v for k, v in window(sym, pat).items() if k in have}
        if rn is not None and 'Rn' in have:
            fix['Rn'] = rn
        opts = dict(VARIANTS[variant], enc=name, arch=arch, tables=['isa_blk'])
        if fix:
            opts['fix'] = fix
        out.append(('step/%s/v%d/%s/%s' % (name, arch, variant, label), opts))
    return out


def reglist(f):
    """the 16-bit ``registers`` value of a diagram written with RL() (absent bits are 0)"""
    return z3.simplify(cat(*[f.get('r%d' % i, BV(0, 1)) for i in range(15, -1, -1)]))


def onehot(t):
    """registers = 1 << t for the single-register encodings"""
    return BV(1, 16) << zx(t, 16)


# ---------------------------------------------------------------------------
# register-list arithmetic
# ---------------------------------------------------------------------------

def counts(regs):
    """(below, total): below[i] = BitCount(regs<i-1:0>) and total = BitCount(regs), 32-bit terms"""
    below = []
    c = BV(0, 32)
    for i in range(16):
        below.append(z3.simplify(c))
        c = c + zx(bits(regs, i, i), 32)
    return below, z3.simplify(c)


def bitcount(regs):
    return counts(regs)[1]


def in_list(regs, n):
    """registers<n> == '1' for a 4-bit term n"""
    return bits(z3.LShR(regs, zx(bv(n, 4), 16)), 0, 0) == 1


def not_lowest(regs, n):
    """n != LowestSetBit(registers), given registers<n> == '1': some lower-numbered register is in the list"""
    return (regs & ((BV(1, 16) << zx(bv(n, 4), 16)) - 1)) != 0


def first_fault(S, start, is_write, unaligned=False):
    """record the alignment-fault data abort of the first access of the transfer"""
    fault = S.mem_u_fault(start, 4) if unaligned else S.mem_a_fault(start, 4)
    _data_abort(S, fault, start, is_write, 0b00001, True)
    return z3.Not(aborted(S))


def rd_word(S, addr, start=None):
    """value of MemA[addr,4] when it does not fault: the word at addr when addr is word aligned, the word at
    Align(addr,4) in the ARMv6 legacy alignment model (SCTLR.U == 0 && SCTLR.A == 0).  Same function as
    St.mem_a_get, but with the case split on values rather than on the address so that the aligned case reads
    at the syntactic address addr (cheap for the solver).  start: an address congruent to addr modulo 4 (the
    first address of the block), so that all words of a block share one alignment atom."""
    direct = S._endian(S._read_bytes(addr, 4), 4)
    if S.arch >= 7:
        return direct
    down = S._endian(S._read_bytes(S._align(addr, 4), 4), 4)
    unal = bits(addr if start is None else start, 1, 0) != 0
    return z3.If(z3.And(S._legacy_align(), unal), down, direct)


def known_bits(regs):
    """per list bit: 0 / 1 when the bit is a constant of the diagram instance (pinned by a window), else None.
    Only used to prune cases that cannot occur (constant propagation); with a fully symbolic list nothing is
    pruned."""
    out = []
    for i in range(16):
        t = z3.simplify(bits(regs, i, i))
        out.append(t.as_long() if z3.is_bv_value(t) else None)
    return out


def below_ranges(kb):
    """[(min, max)] of BitCount(regs<i-1:0>) for i = 0..16 (entry 16: of BitCount(regs))"""
    lo = hi = 0
    out = []
    for i in range(16):
        out.append((lo, hi))
        lo += 1 if kb[i] == 1 else 0
        hi += 0 if kb[i] == 0 else 1
    out.append((lo, hi))
    return out


def load_words(S, regs, start):
    """data[i] = MemA[start + 4*BitCount(regs<i-1:0>), 4] (value when no fault), stated through the 16 word
    slots start + 4*j so that every memory read has a constant offset from start"""
    below, total = counts(regs)
    rng = below_ranges(known_bits(regs))
    slot = {}
    data = []
    for i in range(16):
        lo, hi = rng[i]
        for j in range(lo, hi + 1):
            if j not in slot and j < 16:
                slot[j] = rd_word(S, start + 4 * j, start)
        hi = min(hi, 15)
        v = slot[hi]
        for j in range(hi - 1, lo - 1, -1):
            v = z3.If(below[i] == j, slot[j], v)
        data.append(v)
    return data


def store_words(S, regs, start, values, ok):
    """for every register i of the list in ascending order: MemA[address,4] = values[i]; address += 4.
    Stated per slot: slot j (the word at start + 4*j) receives the j-th lowest register of the list and is
    written iff j < BitCount(registers); an unwritten slot keeps its old contents."""
    below, total = counts(regs)
    kb = known_bits(regs)
    rng = below_ranges(kb)
    tmin, tmax = rng[16]
    mem0 = S.mem

    def build(down):
        """memory after the transfer with every word written at Align(a,4) (down) / at a: the slots written
        are a prefix 0 .. BitCount-1, so the result is selected by BitCount among the memories with exactly n
        slots written (each a plain chain of stores at constant offsets from one base)"""
        S.mem = mem0
        by_count = {0: mem0}
        for j in range(min(tmax, 16)):
            a = start + 4 * j
            wa = S._align(a, 4) if down else a
            cands = [i for i in range(16) if kb[i] != 0 and rng[i][0] <= j <= rng[i][1]]
            v = values[cands[-1]]
            for i in reversed(cands[:-1]):
                v = z3.If(z3.And(bit(regs, i), below[i] == j), values[i], v)
            S._write_bytes(wa, 4, S._endian(v, 4))
            by_count[j + 1] = S.mem
        res = by_count[min(tmax, 16)]
        for n in range(min(tmax, 16) - 1, tmin - 1, -1):
            res = z3.If(total == n, by_count[n], res)
        return res
    # MemA write: at a when a is word aligned (otherwise it faults), except in the ARMv6 legacy alignment model
    # (SCTLR.U == 0 && SCTLR.A == 0) where an unaligned a is forced to Align(a,4).  The case split is made once,
    # on the whole memory, so that each case has stores at constant offsets from one base
    after = build(False)
    legacy_unal = z3.simplify(z3.And(S._legacy_align(), bits(start, 1, 0) != 0)) if S.arch < 7 else z3.BoolVal(False)
    if not z3.is_false(legacy_unal):
        after = z3.If(legacy_unal, build(True), after)
    S.mem = z3.If(ok, after, mem0)


def pc_load(S, guard, value, kind='load'):
    """under guard: LoadWritePC(value) / BranchWritePC(value)"""
    T = S.copy()
    if kind == 'load':
        T.load_write_pc(value)
    else:
        T.branch_write_pc(value)
    S.assign(St.merge(guard, T, S))


# ---------------------------------------------------------------------------
# LDM family
# ---------------------------------------------------------------------------

def ldm_sem(kind, regs_of, n_of, wback_of, usr=False):
    """kind: 'ia' 'ib' 'da' 'db'"""
    def sem(S, f):
        regs = regs_of(f)
        n = n_of(f)
        base = S.reg(n)
        total = 4 * bitcount(regs)
        start = {'ia': base, 'ib': base + 4, 'da': base - total + 4, 'db': base - total}[kind]
        ok = first_fault(S, start, False)
        data = load_words(S, regs, start)
        for i in range(15):
            S.set_reg(i, data[i], guard=z3.And(ok, bit(regs, i)))
        wb = wback_of(f, regs)
        newbase = base + total if kind in ('ia', 'ib') else base - total
        # if wback && registers<n> == '0' then R[n] = ... ; (registers<n> == '1': UNKNOWN, excluded)
        if isinstance(n, int):
            S.set_reg(n, newbase, guard=z3.And(ok, wb, z3.Not(bit(regs, n))))
        else:
            S.set_reg(n, newbase, guard=z3.And(ok, wb, z3.Not(in_list(regs, n)), n != 15))
        pc_load(S, z3.And(ok, bit(regs, 15)), data[15])
    return sem


def wW(f, regs):
    return f['W'] == 1


def ldm_unpred_arm(f, S):
    regs = reglist(f)
    return z3.Or(f['Rn'] == 15, regs == 0,
                 z3.And(f['W'] == 1, in_list(regs, f['Rn'])))  # v7: UNPREDICTABLE; before: R[n] UNKNOWN


def pc_in_it(regs, S):
    return z3.And(bit(regs, 15), in_it_block(S), z3.Not(last_in_it_block(S)))


def ldm_unpred_t32(f, S):
    regs = reglist(f)
    below, total = counts(regs)
    return z3.Or(f['Rn'] == 15, z3.ULT(total, 2), z3.And(f['r15'] == 1, f['r14'] == 1), pc_in_it(regs, S),
                 z3.And(f['W'] == 1, in_list(regs, f['Rn'])))


def sp_pop(f):
    return z3.And(f['W'] == 1, f['Rn'] == 13)


def fRn(f):
    return f['Rn']


def multi(f):
    """BitCount(register_list) >= 2"""
    return z3.UGE(bitcount(reglist(f)), 2)


Enc('LdmArmA1', 'A', 'cond 100010 W 1 Rn ' + RL(), family=FAM,
    guard=lambda f: z3.Not(z3.And(sp_pop(f), multi(f))),  # SEE POP (ARM)
    unpred=ldm_unpred_arm, sem=ldm_sem('ia', reglist, fRn, wW))

Enc('LdmdaA1', 'A', 'cond 100000 W 1 Rn ' + RL(), family=FAM, unpred=ldm_unpred_arm,
    sem=ldm_sem('da', reglist, fRn, wW))

Enc('LdmdbA1', 'A', 'cond 100100 W 1 Rn ' + RL(), family=FAM, unpred=ldm_unpred_arm,
    sem=ldm_sem('db', reglist, fRn, wW))

Enc('LdmibA1', 'A', 'cond 100110 W 1 Rn ' + RL(), family=FAM, unpred=ldm_unpred_arm,
    sem=ldm_sem('ib', reglist, fRn, wW))

# T1: wback = (registers<n> == '0')
Enc('LdmThumbT1', 'T16', '11001 Rn:3 ' + RL(7), family=FAM,
    unpred=lambda f, S: reglist(f) == 0,
    sem=ldm_sem('ia', reglist, lambda f: zx(f['Rn'], 4), lambda f, regs: z3.BoolVal(True)))

Enc('LdmThumbT2', 'T32', '11101 00 010 W 1 Rn r15:1 r14:1 (0) ' + RL(12), family=FAM,
    guard=lambda f: z3.Not(sp_pop(f)),  # SEE POP (Thumb)
    unpred=ldm_unpred_t32, sem=ldm_sem('ia', reglist, fRn, wW))

Enc('LdmdbT1', 'T32', '11101 00 100 W 1 Rn r15:1 r14:1 (0) ' + RL(12), family=FAM,
    unpred=ldm_unpred_t32, sem=ldm_sem('db', reglist, fRn, wW))


# ---------------------------------------------------------------------------
# POP
# ---------------------------------------------------------------------------

def pop_multi(S, f):
    regs = reglist(f)
    ldm_sem('ia', lambda f: regs, lambda f: 13, lambda f, r: z3.BoolVal(True))(S, f)


def pop_single(S, f):
    """UnalignedAllowed = TRUE: registers = 1 << t"""
    t = f['Rt']
    address = S.sp()
    data = mem_u_read(S, address, 4)
    ok = z3.Not(aborted(S))
    S.set_reg(t, data, guard=z3.And(ok, t != 15))
    S.set_reg(13, address + 4, guard=ok)  # t != 13 (UNPREDICTABLE otherwise)
    S.unpredictable(z3.And(t == 15, bits(address, 1, 0) != 0))
    pc_load(S, z3.And(ok, t == 15), data)


Enc('PopArmA1', 'A', 'cond 100010 1 1 1101 ' + RL(), family=FAM,
    guard=multi,  # BitCount < 2: SEE LDM / LDMIA / LDMFD
    unpred=lambda f, S: f['r13'] == 1,  # v7: UNPREDICTABLE; before: SP UNKNOWN
    sem=pop_multi)

Enc('PopArmA2', 'A', 'cond 010010 0 1 1101 Rt 000000000100', family=FAM,
    unpred=lambda f, S: f['Rt'] == 13, sem=pop_single)

Enc('PopThumbT1', 'T16', '1011 1 10 r15:1 ' + RL(7), family=FAM,
    unpred=lambda f, S: z3.Or(reglist(f) == 0, pc_in_it(reglist(f), S)), sem=pop_multi)

Enc('PopThumbT2', 'T32', '11101 00 010 1 1 1101 r15:1 r14:1 (0) ' + RL(12), family=FAM,
    unpred=lambda f, S: z3.Or(z3.Not(multi(f)), z3.And(f['r15'] == 1, f['r14'] == 1), pc_in_it(reglist(f), S)),
    sem=pop_multi)

Enc('PopThumbT3', 'T32', '11111 00 0 0 10 1 1101 Rt 1 011 00000100', family=FAM,
    unpred=lambda f, S: z3.Or(f['Rt'] == 13,
                              z3.And(f['Rt'] == 15, in_it_block(S), z3.Not(last_in_it_block(S)))),
    sem=pop_single)


# ---------------------------------------------------------------------------
# STM family
# ---------------------------------------------------------------------------

def stm_sem(kind, regs_of, n_of, wback_of):
    def sem(S, f):
        regs = regs_of(f)
        n = n_of(f)
        base = S.reg(n)
        total = 4 * bitcount(regs)
        start = {'ia': base, 'ib': base + 4, 'da': base - total + 4, 'db': base - total}[kind]
        ok = first_fault(S, start, True)
        values = [S.reg(i) for i in range(16)]  # i == 15: PCStoreValue() = R[15]
        store_words(S, regs, start, values, ok)
        wb = wback_of(f, regs)
        newbase = base + total if kind in ('ia', 'ib') else base - total
        if isinstance(n, int):
            S.set_reg(n, newbase, guard=z3.And(ok, wb))
        else:
            S.set_reg(n, newbase, guard=z3.And(ok, wb, n != 15))
    return sem


def stm_unknown(f, regs, n):
    """i == n && wback && i != LowestSetBit(registers): the stored value is UNKNOWN"""
    return z3.And(f['W'] == 1, in_list(regs, n), not_lowest(regs, n))


def stm_unpred_arm(f, S):
    regs = reglist(f)
    return z3.Or(f['Rn'] == 15, regs == 0, stm_unknown(f, regs, f['Rn']))


def stm_unpred_t32(f, S):
    regs = reglist(f)
    return z3.Or(f['Rn'] == 15, z3.Not(multi(f)), z3.And(f['W'] == 1, in_list(regs, f['Rn'])))


Enc('StmA1', 'A', 'cond 100010 W 0 Rn ' + RL(), family=FAM, unpred=stm_unpred_arm,
    sem=stm_sem('ia', reglist, fRn, wW))

Enc('StmdaA1', 'A', 'cond 100000 W 0 Rn ' + RL(), family=FAM, unpred=stm_unpred_arm,
    sem=stm_sem('da', reglist, fRn, wW))

Enc('StmdbA1', 'A', 'cond 100100 W 0 Rn ' + RL(), family=FAM,
    guard=lambda f: z3.Not(z3.And(sp_pop(f), multi(f))),  # SEE PUSH
    unpred=stm_unpred_arm, sem=stm_sem('db', reglist, fRn, wW))

Enc('StmibA1', 'A', 'cond 100110 W 0 Rn ' + RL(), family=FAM, unpred=stm_unpred_arm,
    sem=stm_sem('ib', reglist, fRn, wW))

# T1: wback = TRUE
Enc('StmT1', 'T16', '11000 Rn:3 ' + RL(7), family=FAM,
    unpred=lambda f, S: z3.Or(reglist(f) == 0,
                              z3.And(in_list(reglist(f), zx(f['Rn'], 4)), not_lowest(reglist(f), zx(f['Rn'], 4)))),
    sem=stm_sem('ia', reglist, lambda f: zx(f['Rn'], 4), lambda f, regs: z3.BoolVal(True)))

Enc('StmT2', 'T32', '11101 00 010 W 0 Rn (0) r14:1 (0) ' + RL(12), family=FAM, unpred=stm_unpred_t32,
    sem=stm_sem('ia', reglist, fRn, wW))

Enc('StmdbT1', 'T32', '11101 00 100 W 0 Rn (0) r14:1 (0) ' + RL(12), family=FAM,
    guard=lambda f: z3.Not(sp_pop(f)),  # SEE PUSH
    unpred=stm_unpred_t32, sem=stm_sem('db', reglist, fRn, wW))


# ---------------------------------------------------------------------------
# PUSH
# ---------------------------------------------------------------------------

def push_multi(S, f):
    regs = reglist(f)
    stm_sem('db', lambda f: regs, lambda f: 13, lambda f, r: z3.BoolVal(True))(S, f)


def push_single(S, f):
    t = f['Rt']
    address = S.sp() - 4
    mem_u_write(S, address, 4, S.reg(t))  # t == 15: PCStoreValue()
    S.set_reg(13, address, guard=z3.Not(aborted(S)))


Enc('PushA1', 'A', 'cond 100100 1 0 1101 ' + RL(), family=FAM,
    guard=multi,  # BitCount < 2: SEE STMDB / STMFD
    unpred=lambda f, S: z3.And(f['r13'] == 1, not_lowest(reglist(f), 13)),  # stored SP value UNKNOWN
    sem=push_multi)

Enc('PushA2', 'A', 'cond 010100 1 0 1101 Rt 000000000100', family=FAM,
    unpred=lambda f, S: f['Rt'] == 13, sem=push_single)

Enc('PushT1', 'T16', '1011 0 10 r14:1 ' + RL(7), family=FAM,
    unpred=lambda f, S: reglist(f) == 0, sem=push_multi)

Enc('PushT2', 'T32', '11101 00 100 1 0 1101 (0) r14:1 (0) ' + RL(12), family=FAM,
    unpred=lambda f, S: z3.Not(multi(f)), sem=push_multi,
    known=[('F033', lambda f, S: bits(S.sp(), 1, 0) != 0)])

Enc('PushT3', 'T32', '11111 00 0 0 10 0 1101 Rt 1 101 00000100', family=FAM,
    unpred=lambda f, S: any_of(f['Rt'], 13, 15), sem=push_single)


# ---------------------------------------------------------------------------
# LDM / STM (user registers), LDM (exception return)
# ---------------------------------------------------------------------------

def pu_start(f, base, length):
    """increment = (U == '1'); wordhigher = (P == U)"""
    address = z3.If(f['U'] == 1, base, base - length)
    return z3.If(f['P'] == f['U'], address + 4, address)


def usr_or_sys(S):
    return z3.Or(S.is_mode('usr'), S.is_mode('sys'))


def hyp(S):
    return S.is_mode('hyp') if S.have_virt else z3.BoolVal(False)


def ldm_user_sem(S, f):
    regs = reglist(f)
    length = 4 * bitcount(regs)
    start = pu_start(f, S.reg(f['Rn']), length)
    ok = first_fault(S, start, False)
    data = load_words(S, regs, start)
    for i in range(15):
        S.rmode_set(i, USR, data[i], guard=z3.And(ok, bit(regs, i)))


Enc('LdmUserRegistersA1', 'A', 'cond 100 P U 1 (0) 1 Rn 0 ' + RL(14), family=FAM,
    undefined=lambda f, S: hyp(S),
    unpred=lambda f, S: z3.Or(f['Rn'] == 15, reglist(f) == 0, usr_or_sys(S)), sem=ldm_user_sem)


def stm_user_sem(S, f):
    regs = reglist(f)
    length = 4 * bitcount(regs)
    start = pu_start(f, S.reg(f['Rn']), length)
    ok = first_fault(S, start, True)
    values = [S.rmode_get(i, USR) for i in range(15)] + [S.reg(15)]
    store_words(S, regs, start, values, ok)


Enc('StmUserRegistersA1', 'A', 'cond 100 P U 1 (0) 0 Rn ' + RL(), family=FAM,
    undefined=lambda f, S: hyp(S),
    unpred=lambda f, S: z3.Or(f['Rn'] == 15, reglist(f) == 0, usr_or_sys(S)), sem=stm_user_sem)


_restored = {}


def restored_it(S0):
    """isa.step 'it_restore' hook (Thumb exception returns): the ITSTATE loaded by the exception return is not
    advanced.  The hook only receives the pre-state, so the sem function (which isa.step runs first) leaves
    the restored value here."""
    return _restored['it']


def excp_return(S, ok, spsr_value, new_pc):
    """CPSRWriteByInstr(spsr_value, '1111', TRUE); if Hyp && J && T then UNPREDICTABLE else BranchWritePC(new_pc)"""
    T = S.copy()
    T.cpsr_write_by_instr(spsr_value, 0b1111, True)
    _restored['it'] = z3.If(ok, T.it(), S.it())
    j, t = T.cbit(J_), T.cbit(T_)
    T.unpredictable(z3.And(T.mode() == MODE['hyp'], j, t))
    # BranchWritePC with the restored instruction set state: ARM -> word aligned; Thumb/ThumbEE -> halfword
    # aligned; Jazelle -> word aligned because JazelleAcceptsExecution() is FALSE on this implementation
    if T.arch < 6:
        T.unpredictable(z3.And(z3.Not(j), z3.Not(t), bits(new_pc, 1, 0) != 0))
    T.branch_to(z3.If(t, cat(bits(new_pc, 31, 1), BV(0, 1)), cat(bits(new_pc, 31, 2), BV(0, 2))))
    S.assign(St.merge(ok, T, S))


def ldm_eret_sem(S, f):
    regs = reglist(f)  # bits 14..0
    n = f['Rn']
    base = S.reg(n)
    length = 4 * bitcount(regs) + 4
    start = pu_start(f, base, length)
    ok = first_fault(S, start, False)
    data = load_words(S, regs, start)  # data[15]: the word after the registers = new_pc_value
    for i in range(15):
        S.set_reg(i, data[i], guard=z3.And(ok, bit(regs, i)))
    newbase = z3.If(f['U'] == 1, base + length, base - length)
    S.set_reg(n, newbase, guard=z3.And(ok, f['W'] == 1, z3.Not(in_list(regs, n)), n != 15))
    excp_return(S, ok, S.spsr_get(), data[15])


Enc('LdmExceptionReturnA1', 'A', 'cond 100 P U 1 W 1 Rn 1 ' + RL(14), family=FAM,
    undefined=lambda f, S: hyp(S),
    unpred=lambda f, S: z3.Or(f['Rn'] == 15, usr_or_sys(S), z3.And(f['W'] == 1, in_list(reglist(f), f['Rn']))),
    sem=ldm_eret_sem)


# ---------------------------------------------------------------------------
# SRS, RFE
# ---------------------------------------------------------------------------

def srs_sem(inc_of, wh_of):
    def sem(S, f):
        mode = f['mode']
        rfr = bit(S.sys['nsacr'], 19) if 'nsacr' in S.sys else z3.BoolVal(False)
        S.unpredictable(z3.Or(usr_or_sys(S), mode == MODE['hyp'], S.bad_mode(mode),
                              z3.And(z3.Not(S.is_secure()),
                                     z3.Or(mode == MODE['mon'], z3.And(mode == MODE['fiq'], rfr)))))
        inc, wh = inc_of(f), wh_of(f)
        base = S.rmode_get(13, mode)
        address = z3.If(inc, base, base - 8)
        address = z3.If(wh, address + 4, address)
        ok = first_fault(S, address, True)
        lr, spsr = S.lr(), S.spsr_get()
        S.mem_a_set(address, 4, lr, guard=ok)
        S.mem_a_set(address + 4, 4, spsr, guard=ok)
        S.rmode_set(13, mode, z3.If(inc, base + 8, base - 8), guard=z3.And(ok, f['W'] == 1))
    return sem


Enc('SrsArmA1', 'A', '1111 100 P U 1 W 0 (1)(1)(0)(1) (0)(0)(0)(0) (0)(1)(0)(1) (0)(0)(0) mode', family=FAM,
    undefined=lambda f, S: hyp(S), sem=srs_sem(lambda f: f['U'] == 1, lambda f: f['P'] == f['U']))

Enc('SrsThumbT1', 'T32', '11101 00 000 W 0 (1)(1)(0)(1) (1)(1)(0)(0) (0)(0)(0)(0) (0)(0)(0) mode', family=FAM,
    undefined=lambda f, S: hyp(S), sem=srs_sem(lambda f: z3.BoolVal(False), lambda f: z3.BoolVal(False)))

Enc('SrsThumbT2', 'T32', '11101 00 110 W 0 (1)(1)(0)(1) (1)(1)(0)(0) (0)(0)(0)(0) (0)(0)(0) mode', family=FAM,
    undefined=lambda f, S: hyp(S), sem=srs_sem(lambda f: z3.BoolVal(True), lambda f: z3.BoolVal(False)))


def rfe_sem(inc_of, wh_of):
    def sem(S, f):
        n = f['Rn']
        inc, wh = inc_of(f), wh_of(f)
        base = S.reg(n)
        address = z3.If(inc, base, base - 8)
        address = z3.If(wh, address + 4, address)
        ok = first_fault(S, address, False)
        new_pc = S.mem_a_get(address, 4)
        spsr_value = S.mem_a_get(address + 4, 4)
        S.set_reg(n, z3.If(inc, base + 8, base - 8), guard=z3.And(ok, f['W'] == 1, n != 15))
        excp_return(S, ok, spsr_value, new_pc)
    return sem


def rfe_unpred(f, S):
    u = z3.Or(f['Rn'] == 15, S.is_mode('usr'))
    if S.thumb:
        u = z3.Or(u, z3.And(in_it_block(S), z3.Not(last_in_it_block(S))))
    return u


Enc('RfeA1', 'A', '1111 100 P U 0 W 1 Rn (0)(0)(0)(0) (1)(0)(1)(0) (0)(0)(0)(0) (0)(0)(0)(0)', family=FAM,
    undefined=lambda f, S: hyp(S), unpred=rfe_unpred,
    sem=rfe_sem(lambda f: f['U'] == 1, lambda f: f['P'] == f['U']))

Enc('RfeT1', 'T32', '11101 00 000 W 1 Rn (1)(1)(0)(0) (0)(0)(0)(0) (0)(0)(0)(0) (0)(0)(0)(0)', family=FAM,
    undefined=lambda f, S: hyp(S), unpred=rfe_unpred, attrs={'it_restore': restored_it},
    sem=rfe_sem(lambda f: z3.BoolVal(False), lambda f: z3.BoolVal(False)))

Enc('RfeT2', 'T32', '11101 00 110 W 1 Rn (1)(1)(0)(0) (0)(0)(0)(0) (0)(0)(0)(0) (0)(0)(0)(0)', family=FAM,
    undefined=lambda f, S: hyp(S), unpred=rfe_unpred, attrs={'it_restore': restored_it},
    sem=rfe_sem(lambda f: z3.BoolVal(True), lambda f: z3.BoolVal(False)))


# ---------------------------------------------------------------------------
# runner for the standard plan:
#   PYTHONPATH=/repo:/verif python3-vt -m spec.isa_blk ENC[,ENC...]|all ARCH [variant] [procs] [label,label]
# (VERIF_REPO selects the repository checkout, as for tools/try_enc.py)
# ---------------------------------------------------------------------------

def main(argv):
    import json
    import os
    import sys
    import time
    sys.path[:0] = [os.environ.get('VERIF_REPO', '/repo')]
    from vf import runner
    from vf.runner import UnitSpec
    names = sorted(KIND) if argv[1] == 'all' else argv[1].split(',')
    arch = int(argv[2]) if len(argv) > 2 else 6
    variant = argv[3] if len(argv) > 3 else 'std'
    procs = int(argv[4]) if len(argv) > 4 else 4
    labels = set(argv[5].split(',')) if len(argv) > 5 else None
    specs = []
    for n in names:
        for uname, opts in units(n, arch, variant, labels):
            specs.append(UnitSpec(uname, 'vf.step', 'mk_step', opts, max_seconds=int(os.environ.get('BLK_MAX_S', 1500))))
    out = os.environ.get('BLK_OUT')
    t0 = time.time()
    bad = 0
    res = []

    def report(d):
        nonlocal bad
        res.append(d)
        verdict = 'PASS'
        if d.get('harness_error'):
            verdict = 'HARNESS-ERROR'
        elif d['failures']:
            verdict = 'FAIL'
        elif d['inconclusive']:
            verdict = 'INC'
        bad += verdict != 'PASS'
        print('%-13s %s paths %d obl %d dis %d q %d solver %.0f wall %.0f %s' % (
            verdict, d['name'], d['paths'], d['obligations'], d['discharged'], d['queries'], d['solver_s'],
            d['wall_s'], d['outcomes']), flush=True)
        for i, fl in enumerate(d['failures'][:3]):
            path = runner.write_replay('TRY', d['spec'], fl, i)
            rep, text = runner.replay_file(path)
            brief = {k: v for k, v in fl['inputs'].items() if not k.startswith(('R_', 'spsr_', 'elr_', 'mem'))}
            print('   FAIL reproduced=%s %s %s %s' % (rep, fl['claims'][:6], json.dumps(brief)[:400], path))
        for inc in d['inconclusive'][:3]:
            print('   INC', str(inc)[:400])
        if d.get('harness_error'):
            print(d['harness_error'][-1500:])
        if out:
            with open(out, 'a') as fh:
                fh.write(json.dumps({'name': d['name'], 'verdict': verdict, 'paths': d['paths'],
                                     'obligations': d['obligations'], 'discharged': d['discharged'],
                                     'wall_s': d['wall_s'], 'repo': os.environ.get('VERIF_REPO', '/repo'),
                                     'claims': [fl['claims'][:4] for fl in d['failures'][:3]],
                                     'inconclusive': [str(i)[:200] for i in d['inconclusive'][:3]]}) + '\n')
    runner._init_pool(None)
    if procs <= 1 or len(specs) == 1:
        for sp in specs:
            report(runner._worker(sp))
    else:
        import multiprocessing as mp
        with mp.get_context('fork').Pool(procs, initializer=runner._init_pool, initargs=(None,),
                                         maxtasksperchild=4) as pool:
            for d in pool.imap_unordered(runner._worker, specs, chunksize=1):
                report(d)
    print('units %d not-pass %d total %.0fs' % (len(res), bad, time.time() - t0))

