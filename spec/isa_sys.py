"""Instruction table: system family -- MRS, MSR, CPS, SETEND, SUBS PC LR / ERET, the generic coprocessor
instructions (CDP MCR MRC MCRR MRRC LDC STC and their "2" forms), DSB/ISB and PLD/PLDW.
Transcribed from DDI 0406C: A8.8 (application level), B9.3 (system level), B1.3.3 (CPSR/SPSR writes) and the
Coproc_Accepted() pseudocode of B1 ("Conceptual coprocessor support")."""
import z3

from . import pseudo as P
from .pseudo import BV, bv, bits, bit, zx, sx, cat
from . import isa as _isa
from .isa import Enc, any_of, in_it_block, last_in_it_block, raise_exc
from .state import St, MODE, C_, E_, A_, I_, F_, T_, J_, set_bits

FAM = 'sys'
TRUE = z3.BoolVal(True)
FALSE = z3.BoolVal(False)

# ---------------------------------------------------------------------------
# Local framework work-around.  isa.step() applies ITAdvance() to the final state of every instruction executed
# inside an IT block.  An exception return executed (as the last instruction) in an IT block loads ITSTATE from
# the SPSR; that value belongs to the instruction returned to and must not be advanced.  Rows carrying
# attrs={'it_restore': fn(S0) -> ITSTATE term} get the restored value when the instruction executes normally.
# ---------------------------------------------------------------------------
if not getattr(_isa.step, '_it_restore_aware', False):
    _orig_step = _isa.step

    def _step(S0, enc, f):
        R, unp, info = _orig_step(S0, enc, f)
        if enc.thumb and enc.attrs and 'it_restore' in enc.attrs:
            keep = z3.And(info['passed'], z3.Not(info['exception']))
            R.set_it(z3.If(keep, enc.attrs['it_restore'](S0), R.it()))
        return R, unp, info
    _step._it_restore_aware = True
    _isa.step = _step


def spsr_it(S0):
    sp = S0.spsr_get()
    return cat(bits(sp, 15, 10), bits(sp, 26, 25))


def badreg(x):
    return any_of(x, 13, 15)


def it_not_last(S):
    return z3.And(in_it_block(S), z3.Not(last_in_it_block(S)))


def usr_or_sys(S):
    return z3.Or(S.is_mode('usr'), S.is_mode('sys'))


# ===========================================================================
# MRS (A8.8.109 / B9.3.8)
# ===========================================================================
CPSR_READ_MASK = 0xF8FF03DF  # execution state bits other than E masked out


def mrs_sem(read_spsr):
    def sem(S, f):
        if read_spsr:
            S.unpredictable(usr_or_sys(S))
            S.set_reg(f['Rd'], S.spsr_get())
        else:
            # from User mode E, A, I, F <9:6> and M <4:0> read as UNKNOWN: the oracle picks 0 for them
            v = S.cpsr & BV(CPSR_READ_MASK, 32)
            S.set_reg(f['Rd'], z3.If(S.is_mode('usr'), v & BV(0xFFFFFC20, 32), v))
    return sem


MRS_A = 'cond 00010 %s 00 (1)(1)(1)(1) Rd (0)(0) 0 (0) 0000 (0)(0)(0)(0)'
MRS_T = '11110 0 11111 %s (1)(1)(1)(1) 10 (0) 0 Rd (0)(0) 0 (0)(0)(0)(0)(0)'
Enc('MrsApplicationA1', 'A', MRS_A % '0', family=FAM, unpred=lambda f, S: f['Rd'] == 15, sem=mrs_sem(False),
    known=[('F014', lambda f, S: S.privileged())])
Enc('MrsSystemA1', 'A', MRS_A % '1', family=FAM, unpred=lambda f, S: f['Rd'] == 15, sem=mrs_sem(True))
Enc('MrsApplicationT1', 'T32', MRS_T % '0', family=FAM, unpred=lambda f, S: badreg(f['Rd']), sem=mrs_sem(False),
    known=[('F014', lambda f, S: S.privileged())])
Enc('MrsSystemT1', 'T32', MRS_T % '1', family=FAM, unpred=lambda f, S: badreg(f['Rd']), sem=mrs_sem(True))


# ===========================================================================
# MSR (A8.8.111/112, B9.3.11/12)
# ===========================================================================
def msr_sem(value, mask, r):
    """value(S, f) -> 32-bit operand; mask(f) -> 4-bit byte mask; r(f) -> Bool write_spsr (or python bool)"""
    def sem(S, f):
        v = value(S, f)
        m = mask(f)
        w = r(f)
        if w is False:
            S.cpsr_write_by_instr(v, m, False)
            return
        A = S.copy()
        A.spsr_write_by_instr(v, m)
        B = S.copy()
        B.cpsr_write_by_instr(v, m, False)
        S.assign(St.merge(w, A, B))
    return sem


def imm_op(S, f):
    return P.arm_expand_imm_c(f['imm12'], S.cbit(C_))[0]


def rn_op(S, f):
    return S.reg(f['Rn'])


app_mask = lambda f: cat(f['mask'], BV(0, 2))
sys_mask = lambda f: f['mask']
R_bit = lambda f: f['R'] == 1
not_app = lambda f: z3.Not(z3.And(f['R'] == 0, bits(f['mask'], 1, 0) == 0))

Enc('MsrImmediateApplicationA1', 'A', 'cond 00110 0 10 mask:2 00 (1)(1)(1)(1) imm12', family=FAM,
    guard=lambda f: f['mask'] != 0, sem=msr_sem(imm_op, app_mask, lambda f: False))
Enc('MsrImmediateSystemA1', 'A', 'cond 00110 R 10 mask (1)(1)(1)(1) imm12', family=FAM, guard=not_app,
    unpred=lambda f, S: f['mask'] == 0, sem=msr_sem(imm_op, sys_mask, R_bit))
MSR_RA = 'cond 00010 %s 10 %s (1)(1)(1)(1) (0)(0) 0 (0) 0000 Rn'
Enc('MsrRegisterApplicationA1', 'A', MSR_RA % ('0', 'mask:2 00'), family=FAM,
    unpred=lambda f, S: z3.Or(f['mask'] == 0, f['Rn'] == 15), sem=msr_sem(rn_op, app_mask, lambda f: False))
Enc('MsrRegisterSystemA1', 'A', MSR_RA % ('R', 'mask'), family=FAM, guard=not_app,
    unpred=lambda f, S: z3.Or(f['mask'] == 0, f['Rn'] == 15), sem=msr_sem(rn_op, sys_mask, R_bit))
MSR_RT = '11110 0 1110 0 %s Rn 10 (0) 0 %s (0)(0) 0 (0)(0)(0)(0)(0)'
Enc('MsrRegisterApplicationT1', 'T32', MSR_RT % ('0', 'mask:2 00'), family=FAM,
    unpred=lambda f, S: z3.Or(f['mask'] == 0, badreg(f['Rn'])), sem=msr_sem(rn_op, app_mask, lambda f: False))
Enc('MsrRegisterSystemT1', 'T32', MSR_RT % ('R', 'mask'), family=FAM, guard=not_app,
    unpred=lambda f, S: z3.Or(f['mask'] == 0, badreg(f['Rn'])), sem=msr_sem(rn_op, sys_mask, R_bit))


# ===========================================================================
# CPS (B9.3.2), SETEND (A8.8.157)
# ===========================================================================
def cps_sem(enable, disable, changemode, mode):
    def sem(S, f):
        en, dis, chg = enable(f), disable(f), changemode(f)
        v = S.cpsr
        for name, pos in (('A', A_), ('I', I_), ('F', F_)):
            aff = f[name] == 1
            v = z3.If(z3.And(en, aff), set_bits(v, pos, pos, 0), v)
            v = z3.If(z3.And(dis, aff), set_bits(v, pos, pos, 1), v)
        if mode is not None:
            v = z3.If(chg, set_bits(v, 4, 0, mode(f)), v)
        T = S.copy()
        T.cpsr_write_by_instr(v, 0b1111, False)
        S.assign(St.merge(S.privileged(), T, S))
    return sem


def cps_unpred(f, S):
    aif = cat(f['A'], f['I'], f['F'])
    imod = f['imod']
    return z3.Or(z3.And(f['mode'] != 0, f['M'] == 0),
                 z3.And(bit(imod, 1), aif == 0), z3.And(z3.Not(bit(imod, 1)), aif != 0),
                 z3.And(imod == 0, f['M'] == 0), imod == 1)


cps_full = cps_sem(lambda f: f['imod'] == 2, lambda f: f['imod'] == 3, lambda f: f['M'] == 1, lambda f: f['mode'])
Enc('CpsArmA1', 'A', '1111 00010000 imod:2 M 0 (0)(0)(0)(0)(0)(0)(0) A I F 0 mode', family=FAM, unpred=cps_unpred,
    sem=cps_full)
Enc('CpsThumbT1', 'T16', '1011 0110 011 im:1 (0) A I F', family=FAM,
    unpred=lambda f, S: z3.Or(cat(f['A'], f['I'], f['F']) == 0, in_it_block(S)),
    sem=cps_sem(lambda f: f['im'] == 0, lambda f: f['im'] == 1, lambda f: FALSE, None))
Enc('CpsThumbT2', 'T32', '11110 0 1110 1 0 (1)(1)(1)(1) 10 (0) 0 (0) imod:2 M A I F mode', family=FAM,
    guard=lambda f: z3.Not(z3.And(f['imod'] == 0, f['M'] == 0)),
    unpred=lambda f, S: z3.Or(cps_unpred(f, S), in_it_block(S)), sem=cps_full)


def setend_sem(S, f):
    S.set_cbit(E_, f['E'] == 1)


Enc('SetendA1', 'A', '1111 00010000 (0)(0)(0) 1 (0)(0)(0)(0)(0)(0) E (0) 0000 (0)(0)(0)(0)', family=FAM,
    sem=setend_sem)
Enc('SetendT1', 'T16', '1011 0110 010 (1) E (0)(0)(0)', family=FAM, unpred=lambda f, S: in_it_block(S),
    sem=setend_sem)


# ===========================================================================
# SUBS PC, LR and related (B9.3.19/20), ERET (B9.3.3)
# ===========================================================================
def exception_return(S, target, hyp_undefined=True):
    """CPSRWriteByInstr(SPSR[], '1111', TRUE); BranchWritePC(target) in the restored instruction set"""
    S.unpredictable(usr_or_sys(S))
    if S.have_virt and hyp_undefined:
        raise_exc(S, S.is_mode('hyp'), 'undef')
    S.cpsr_write_by_instr(S.spsr_get(), 0b1111, True)
    # illegal returns: J = 1 (Jazelle / ThumbEE state, neither is implemented), ARM state with ITSTATE != 0
    S.unpredictable(S.cbit(J_))
    S.unpredictable(z3.And(z3.Not(S.cbit(T_)), S.it() != 0))
    S.branch_write_pc(target)


def subs_pc_lr_arm(register_form):
    def sem(S, f):
        c = S.cbit(C_)
        if register_form:
            kind, amount = P.decode_imm_shift(f['type'], f['imm5'])
            op2 = P.shift_c(S.reg(f['Rm']), kind, amount, c)[0]
        else:
            op2 = P.arm_expand_imm_c(f['imm12'], c)[0]
        a = S.reg(f['Rn'])
        awc = lambda x, y, ci: P.add_with_carry(x, y, ci)[0]
        table = {0b0000: a & op2, 0b0001: a ^ op2, 0b0010: awc(a, ~op2, TRUE), 0b0011: awc(~a, op2, TRUE),
                 0b0100: awc(a, op2, FALSE), 0b0101: awc(a, op2, c), 0b0110: awc(a, ~op2, c), 0b0111: awc(~a, op2, c),
                 0b1100: a | op2, 0b1101: op2, 0b1110: a & ~op2, 0b1111: ~op2}
        result = BV(0, 32)
        for k, v in table.items():
            result = z3.If(f['opcode'] == k, v, result)
        exception_return(S, result)
    return sem


not_cmp = lambda f: bits(f['opcode'], 3, 2) != 0b10  # TST/TEQ/CMP/CMN have no Rd
# ADDS/SUBS PC, PC, #imm: table A5-8 sends op = 0010x / 0100x with Rn = 1111 to ADR regardless of S while the
# instruction descriptions disagree (see isa_dp.AddImmediateArmA1) -- left outside the claim
Enc('SubsPcLrArmA1', 'A', 'cond 001 opcode:4 1 Rn 1111 imm12', family=FAM,
    guard=lambda f: z3.And(not_cmp(f), z3.Not(z3.And(f['Rn'] == 15, any_of(f['opcode'], 0b0010, 0b0100)))),
    sem=subs_pc_lr_arm(False))
Enc('SubsPcLrArmA2', 'A', 'cond 000 opcode:4 1 Rn 1111 imm5 type 0 Rm', family=FAM, guard=not_cmp,
    sem=subs_pc_lr_arm(True))


def subs_pc_lr_thumb(S, f):
    result = P.add_with_carry(S.reg(14), ~zx(f['imm8'], 32), TRUE)[0]
    exception_return(S, result)


def eret_sem(S, f):
    target = z3.If(S.is_mode('hyp'), S.elr_hyp, S.reg(14)) if S.have_virt else S.reg(14)
    exception_return(S, target, hyp_undefined=False)


SUBS_T = '11110 0 1111 0 1 (1)(1)(1)(0) 10 (0) 0 (1)(1)(1)(1) %s'
Enc('SubsPcLrThumbT1', 'T32', SUBS_T % 'imm8', family=FAM, guard=lambda f: f['imm8'] != 0,
    unpred=lambda f, S: it_not_last(S), sem=subs_pc_lr_thumb, attrs={'it_restore': spsr_it})
Enc('EretT1', 'T32', SUBS_T % '00000000', family=FAM, unpred=lambda f, S: it_not_last(S), sem=eret_sem,
    attrs={'it_restore': spsr_it})


# ===========================================================================
# Coprocessor instructions (A8.8.28 CDP, .98/.99 MCR MCRR, .107/.108 MRC MRRC, .56/.57 LDC, .199 STC)
# Every one is: if !Coproc_Accepted(cp, ThisInstr()) then GenerateCoprocessorException() (UNDEFINED) else
# <coprocessor interface call>; the repository's coprocessor interface is a set of mock hooks.
# ===========================================================================
def coproc_accepted(S, f, kind, is2):
    """Coproc_Accepted(cp, instr) for cp not in {10, 11}: returns (undefined Bool, unpredictable Bool).
    kind: 'cdp' 'mcr' 'mrc' 'mcrr' 'mrrc' 'ldc' 'stc'; is2: instr<31:28> == '1111'.
    Hyp traps (HCPTR/HSTR/HCR.TIDCP) need the Virtualization Extensions and are not modelled (virt = False)."""
    cp = f['coproc']
    user = S.is_mode('usr')
    # ---- cp0..cp13 ----
    sh = zx(cp, 32)
    ns_denied = z3.And(z3.Not(S.is_secure()), bits(z3.LShR(S.sys['nsacr'], sh), 0, 0) == 0) if S.have_sec else FALSE
    acc = bits(z3.LShR(S.sys['cpacr'], sh * 2), 1, 0)
    if S.have_virt:
        # Virtualization Extensions: the NSACR check applies in every Non-secure mode incl. Hyp; the CPACR check is
        # skipped in Hyp mode.  Outside the claim (returned as 'unpredictable' = excluded): cp14/cp15 (HSTR / HCR
        # traps) and a set HCPTR.TCP<cp> bit (Hyp trap with an HSR syndrome)
        hyp = S.is_mode('hyp')
        trapped = bits(z3.LShR(S.sys['hcptr'], sh), 0, 0) == 1
        und = z3.Or(ns_denied, z3.And(z3.Not(hyp), z3.Or(acc == 0, z3.And(acc == 1, user))))
        unp = z3.Or(z3.And(z3.Not(ns_denied), z3.Not(hyp), acc == 2), z3.UGE(cp, 14), z3.And(z3.Not(und), trapped))
        return und, unp
    und_gen = z3.Or(ns_denied, acc == 0, z3.And(acc == 1, user))
    unp_gen = z3.And(z3.Not(ns_denied), acc == 2)
    # ---- cp14 ----
    if is2 or kind == 'cdp':
        und14, unp14 = TRUE, FALSE
    elif kind in ('mcr', 'mrc'):
        opc1 = f['opc1']
        tee_unp = z3.Or(f['opc2'] != 0, bits(f['CRm'], 3, 1) != 0, f['Rt'] == 15)
        crm0 = bit(f['CRm'], 0)
        tee_und = z3.And(z3.Not(tee_unp), z3.Not(crm0), user)  # TEECR: not accessible from User mode
        # TEEHBR from User mode depends on TEECR.XED; the register selection bit of the manual's pseudocode
        # (instr<0>) is doubtful (TEECR and TEEHBR differ in CRn), so that corner is left outside the claim
        tee_amb = z3.And(z3.Not(tee_unp), crm0, user)
        und14 = z3.Or(any_of(opc1, 2, 3, 4, 5), z3.And(opc1 == 6, tee_und))
        unp14 = z3.And(opc1 == 6, z3.Or(tee_unp, tee_amb))
    elif kind == 'mrrc':
        und14, unp14 = f['opc1'] != 0, FALSE
    else:  # mcrr, ldc, stc: the instr<27:25> == '110' arm: only CRd (instr<15:12>) == c5 is defined
        und14, unp14 = (f['Rt'] if kind == 'mcrr' else f['CRd']) != 5, FALSE
    # ---- cp15 ----
    if is2 or kind in ('cdp', 'ldc', 'stc'):
        und15, unp15 = TRUE, FALSE
    else:
        crn = f['CRn'] if kind in ('mcr', 'mrc') else f['CRm']
        und15, unp15 = FALSE, crn == 4
    und = z3.If(cp == 14, und14, z3.If(cp == 15, und15, und_gen))
    unp = z3.If(cp == 14, unp14, z3.If(cp == 15, unp15, unp_gen))
    return und, unp


def cp_sem(kind, is2):
    def sem(S, f):
        und, unp = coproc_accepted(S, f, kind, is2)
        S.unpredictable(unp)
        raise_exc(S, und, 'undef')
        # accepted: CPxInstrDecode / the Coproc_* transfer -- not implemented by the repository (see notimpl)
    return sem


def cp_notimpl(kind, is2):
    def ni(f, S):
        und, unp = coproc_accepted(S, f, kind, is2)
        return z3.Not(und)
    return ni


not_fp = lambda f: bits(f['coproc'], 3, 1) != 0b101
is_fp = lambda f, S: bits(f['coproc'], 3, 1) == 0b101


def cp_rows(names, kind, body, guard=None, unpred=None, unpred_t=None):
    """names: (A1, A2, T1, T2); body: the 24 bits below cond/1111 (ARM) resp. below 111x (Thumb: x = 0 T1, 1 T2)"""
    a1, a2, t1, t2 = names
    g1 = (lambda f: z3.And(not_fp(f), guard(f))) if guard else not_fp
    for name, iset, head, is2 in ((a1, 'A', 'cond', False), (a2, 'A', '1111', True), (t1, 'T32', '1110', False),
                                  (t2, 'T32', '1111', True)):
        up = unpred_t if iset == 'T32' else unpred
        Enc(name, iset, head + ' ' + body, family=FAM,
            # coproc 101x: Advanced SIMD / FP space for the non-"2" forms, UNDEFINED for the "2" forms.  For the
            # Thumb "2" forms the repository's decoder answers NotImplementedError (it routes them to the VFP
            # space) -- an accepted 'unimplemented' outcome, so that region is left outside the row
            guard=(guard if (is2 and iset == 'A') else g1),
            undefined=(is_fp if (is2 and iset == 'A') else None),
            unpred=up, sem=cp_sem(kind, is2), notimpl=cp_notimpl(kind, is2))


cp_rows(('CdpCdp2A1', 'CdpCdp2A2', 'CdpCdp2T1', 'CdpCdp2T2'), 'cdp', '1110 opc1 CRn CRd coproc opc2 0 CRm')
cp_rows(('McrMcr2A1', 'McrMcr2A2', 'McrMcr2T1', 'McrMcr2T2'), 'mcr', '1110 opc1:3 0 CRn Rt coproc opc2 1 CRm',
        unpred=lambda f, S: f['Rt'] == 15, unpred_t=lambda f, S: badreg(f['Rt']))
cp_rows(('MrcMrc2A1', 'MrcMrc2A2', 'MrcMrc2T1', 'MrcMrc2T2'), 'mrc', '1110 opc1:3 1 CRn Rt coproc opc2 1 CRm',
        unpred=None, unpred_t=lambda f, S: f['Rt'] == 13)
cp_rows(('McrrMcrr2A1', 'McrrMcrr2A2', 'McrrMcrr2T1', 'McrrMcrr2T2'), 'mcrr',
        '1100 0100 Rt2 Rt coproc opc1 CRm',
        unpred=lambda f, S: z3.Or(f['Rt'] == 15, f['Rt2'] == 15),
        unpred_t=lambda f, S: z3.Or(badreg(f['Rt']), badreg(f['Rt2'])))
cp_rows(('MrrcMrrc2A1', 'MrrcMrrc2A2', 'MrrcMrrc2T1', 'MrrcMrrc2T2'), 'mrrc',
        '1100 0101 Rt2 Rt coproc opc1 CRm',
        unpred=lambda f, S: z3.Or(f['Rt'] == 15, f['Rt2'] == 15, f['Rt'] == f['Rt2']),
        unpred_t=lambda f, S: z3.Or(badreg(f['Rt']), badreg(f['Rt2']), f['Rt'] == f['Rt2']))

# LDC / STC: P U D W = 0010 is MCRR / MRRC; 0000 is UNDEFINED: the decode tables (A5-22 / A6-31) list it as a
# separate UNDEFINED entry, the repository's decoders reject it before a class is selected, so it is kept out of
# the rows' domain (the decode-level checks own it)
pudw = lambda f: cat(f['P'], f['U'], f['D'], f['W'])
ls_guard = lambda f: z3.And(pudw(f) != 0b0010, pudw(f) != 0)


def ldst_rows(names, kind, body, guard, unpred, unpred_t):
    a1, a2, t1, t2 = names
    for name, iset, head, is2 in ((a1, 'A', 'cond', False), (a2, 'A', '1111', True), (t1, 'T32', '1110', False),
                                  (t2, 'T32', '1111', True)):
        if name is None:
            continue
        g = guard if (is2 and iset == 'A') else (lambda f, guard=guard: z3.And(not_fp(f), guard(f)))
        ud = is_fp if (is2 and iset == 'A') else None
        Enc(name, iset, head + ' ' + body, family=FAM, guard=g, undefined=ud,
            unpred=(unpred_t if iset == 'T32' else unpred), sem=cp_sem(kind, is2), notimpl=cp_notimpl(kind, is2))


ldst_rows(('LdcLdc2ImmediateA1', 'LdcLdc2ImmediateA2', 'LdcLdc2ImmediateT1', 'LdcLdc2ImmediateT2'), 'ldc',
          '110 P U D W 1 Rn CRd coproc imm8', lambda f: z3.And(ls_guard(f), f['Rn'] != 15), None, None)
lit_unp_a = lambda f, S: f['W'] == 1
lit_unp_t = lambda f, S: z3.Or(f['W'] == 1, f['P'] == 0)
ldst_rows(('LdcLdc2LiteralA1', 'LdcLdc2LiteralA2', 'LdcLdc2LiteralT1', 'LdcLdc2LiteralT2'), 'ldc',
          '110 P U D W 1 1111 CRd coproc imm8', ls_guard, lit_unp_a, lit_unp_t)
ldst_rows(('StcStc2A1', 'StcStc2A2', 'StcStc2T1', 'StcStc2T2'), 'stc', '110 P U D W 0 Rn CRd coproc imm8', ls_guard,
          lambda f, S: z3.And(f['Rn'] == 15, f['W'] == 1), lambda f, S: f['Rn'] == 15)


# ===========================================================================
# DSB / ISB (ARMv7), PLD / PLDW -- the operation is a single call of a hook the repository leaves unimplemented
# ===========================================================================
def nop_sem(S, f):
    pass


always = lambda f, S: TRUE
BAR_A = '1111 01010111 (1)(1)(1)(1) (1)(1)(1)(1) (0)(0)(0)(0) %s option'
BAR_T = '11110 0 111 01 1 (1)(1)(1)(1) 10 (0) 0 (1)(1)(1)(1) %s option'
Enc('DsbA1', 'A', BAR_A % '0100', family=FAM, arch=7, sem=nop_sem, notimpl=always)
Enc('IsbA1', 'A', BAR_A % '0110', family=FAM, arch=7, sem=nop_sem, notimpl=always)
Enc('DsbT1', 'T32', BAR_T % '0100', family=FAM, arch=7, sem=nop_sem, notimpl=always)
Enc('IsbT1', 'T32', BAR_T % '0110', family=FAM, arch=7, sem=nop_sem, notimpl=always)

Enc('PldImmediateA1', 'A', '1111 0101 U R 01 Rn (1)(1)(1)(1) imm12', family=FAM, guard=lambda f: f['Rn'] != 15,
    sem=nop_sem, notimpl=always)
Enc('PldLiteralA1', 'A', '1111 0101 U (1) 01 1111 (1)(1)(1)(1) imm12', family=FAM, sem=nop_sem, notimpl=always)
Enc('PldRegisterA1', 'A', '1111 0111 U R 01 Rn (1)(1)(1)(1) imm5 type 0 Rm', family=FAM,
    unpred=lambda f, S: z3.Or(f['Rm'] == 15, z3.And(f['Rn'] == 15, f['R'] == 0)), sem=nop_sem, notimpl=always)
Enc('PldImmediateT1', 'T32', '11111 00 0 1 0 W 1 Rn 1111 imm12', family=FAM, guard=lambda f: f['Rn'] != 15,
    sem=nop_sem, notimpl=always)
Enc('PldImmediateT2', 'T32', '11111 00 0 0 0 W 1 Rn 1111 1100 imm8', family=FAM, guard=lambda f: f['Rn'] != 15,
    sem=nop_sem, notimpl=always)
Enc('PldLiteralT1', 'T32', '11111 00 0 U 0 (0) 1 1111 1111 imm12', family=FAM, sem=nop_sem, notimpl=always)
Enc('PldRegisterT1', 'T32', '11111 00 0 0 0 W 1 Rn 1111 000000 imm2 Rm', family=FAM, guard=lambda f: f['Rn'] != 15,
    unpred=lambda f, S: badreg(f['Rm']), sem=nop_sem, notimpl=always)
