"""Instruction table: data-processing family (C01) -- ARM A1/A2 and Thumb T1..T4 encodings of
ADC ADD ADR AND ASR BIC CMN CMP EOR LSL LSR MOV MOVT MVN ORN ORR ROR RRX RSB RSC SBC SUB TEQ TST.
Transcribed from DDI 0406C A8.8 (encoding diagrams, "SEE" exclusions, UNPREDICTABLE lists, operation)."""
import z3

from . import pseudo as P
from .pseudo import BV, bv, bits, bit, zx, sx, cat
from .isa import Enc, any_of, in_it_block, last_in_it_block, write_reg_or_pc, setflags_if
from .state import St, C_, V_, N_, Z_

LOGICAL = {'and', 'eor', 'orr', 'bic', 'mov', 'mvn', 'orn', 'tst', 'teq'}
NOWRITE = {'tst', 'teq', 'cmp', 'cmn'}


def compute(op, a, b, cflag, shc):
    """returns (result, carry Bool, overflow Bool or None)"""
    if op in ('and', 'tst'):
        return a & b, shc, None
    if op in ('eor', 'teq'):
        return a ^ b, shc, None
    if op == 'orr':
        return a | b, shc, None
    if op == 'bic':
        return a & ~b, shc, None
    if op == 'orn':
        return a | ~b, shc, None
    if op == 'mov':
        return b, shc, None
    if op == 'mvn':
        return ~b, shc, None
    if op in ('add', 'cmn'):
        return P.add_with_carry(a, b, z3.BoolVal(False))
    if op == 'adc':
        return P.add_with_carry(a, b, cflag)
    if op in ('sub', 'cmp'):
        return P.add_with_carry(a, ~b, z3.BoolVal(True))
    if op == 'sbc':
        return P.add_with_carry(a, ~b, cflag)
    if op == 'rsb':
        return P.add_with_carry(~a, b, z3.BoolVal(True))
    if op == 'rsc':
        return P.add_with_carry(~a, b, cflag)
    raise AssertionError(op)


def dp(op, d, n, op2, setflags, pcwrite='alu'):
    """generic data-processing operation.
    d, n: callables f -> register number (int or term) or None; op2: callable (S, f) -> (value, shifter carry Bool);
    setflags: callable (S, f) -> Bool"""
    def sem(S, f):
        cflag = S.cbit(C_)
        b, shc = op2(S, f)
        a = S.reg(n(f)) if n is not None else BV(0, 32)
        result, carry, ov = compute(op, a, b, cflag, shc)
        sf = setflags(S, f)
        sf = z3.BoolVal(sf) if isinstance(sf, bool) else sf

        def flags(T):
            T.set_nz(result)
            T.set_cbit(C_, carry)
            if ov is not None:
                T.set_cbit(V_, ov)
        if op in NOWRITE:
            flags(S)
            return
        dd = d(f)

        def wr_pc(T, v):
            if pcwrite == 'alu':
                T.alu_write_pc(v)
            else:
                T.branch_write_pc(v)
        is_pc = (dd == 15) if isinstance(dd, int) else (bv(dd, 4) == 15)
        is_pc = z3.BoolVal(is_pc) if isinstance(is_pc, bool) else is_pc
        write_reg_or_pc(S, dd, result, wr_pc)
        # flags only when the destination is not the PC
        setflags_if(S, z3.And(sf, z3.Not(is_pc)), flags)
    return sem


# ---- operand-2 builders -------------------------------------------------------

def op2_arm_imm(S, f):
    return P.arm_expand_imm_c(f['imm12'], S.cbit(C_))


def op2_thumb_imm(S, f):
    imm12 = cat(f['i'], f['imm3'], f['imm8'])
    v, c, unp = P.thumb_expand_imm_c(imm12, S.cbit(C_))
    S.unpredictable(unp)
    return v, c


def op2_reg_immshift(rm='Rm', ty='type', imm=lambda f: f['imm5']):
    def g(S, f):
        kind, amount = P.decode_imm_shift(f[ty], imm(f))
        return P.shift_c(S.reg(f[rm]), kind, amount, S.cbit(C_))
    return g


def op2_reg_regshift(S, f):
    amount = bits(S.reg(f['Rs']), 7, 0)
    return P.shift_c(S.reg(f['Rm']), P.decode_reg_shift(f['type']), amount, S.cbit(C_))


def op2_const(fn):
    def g(S, f):
        return fn(f), S.cbit(C_)
    return g


def op2_reg(rm):
    def g(S, f):
        return S.reg(rm(f)), S.cbit(C_)
    return g


def S_field(S, f):
    return f['S'] == 1


def S_not_it(S, f):
    return z3.Not(in_it_block(S))


def S_true(S, f):
    return True


def S_false(S, f):
    return False


def fld(name):
    return lambda f: f[name]


def badreg(x):
    return any_of(x, 13, 15)


def not_subs_pc(f):
    return z3.Not(z3.And(f['Rd'] == 15, f['S'] == 1))


OPC = {'and': 0b0000, 'eor': 0b0001, 'sub': 0b0010, 'rsb': 0b0011, 'add': 0b0100, 'adc': 0b0101, 'sbc': 0b0110,
       'rsc': 0b0111, 'tst': 0b1000, 'teq': 0b1001, 'cmp': 0b1010, 'cmn': 0b1011, 'orr': 0b1100, 'mov': 0b1101,
       'bic': 0b1110, 'mvn': 0b1111}


def b4(x):
    return format(x, '04b')


FAM = 'dp'

# ===========================================================================
# ARM
# ===========================================================================
for op in ('and', 'eor', 'rsb', 'adc', 'sbc', 'rsc', 'orr', 'bic'):
    C = op.capitalize()
    Enc(C + 'ImmediateA1', 'A', 'cond 001 %s S Rn Rd imm12' % b4(OPC[op]), family=FAM, guard=not_subs_pc,
        sem=dp(op, fld('Rd'), fld('Rn'), op2_arm_imm, S_field))
    Enc(C + 'RegisterA1', 'A', 'cond 000 %s S Rn Rd imm5 type 0 Rm' % b4(OPC[op]), family=FAM, guard=not_subs_pc,
        sem=dp(op, fld('Rd'), fld('Rn'), op2_reg_immshift(), S_field))
for op in ('and', 'eor', 'sub', 'rsb', 'add', 'adc', 'sbc', 'rsc', 'orr', 'bic'):
    C = op.capitalize()
    Enc(C + 'RegisterShiftedRegisterA1', 'A', 'cond 000 %s S Rn Rd Rs 0 type 1 Rm' % b4(OPC[op]), family=FAM,
        unpred=lambda f, S: z3.Or(f['Rd'] == 15, f['Rn'] == 15, f['Rm'] == 15, f['Rs'] == 15),
        sem=dp(op, fld('Rd'), fld('Rn'), op2_reg_regshift, S_field))

# ADD / SUB (immediate, register) with their SP and PC special cases
Enc('AddImmediateArmA1', 'A', 'cond 001 0100 S Rn Rd imm12', family=FAM,
    # Rn == 1111: S == 0 is ADR; S == 1 is ADDS Rd, PC, #imm by the instruction description but ADR by table
    # A5-8 -- the manual is inconsistent, so the whole Rn == 1111 row is left outside the claim
    guard=lambda f: z3.And(not_subs_pc(f), f['Rn'] != 15, f['Rn'] != 13),
    sem=dp('add', fld('Rd'), fld('Rn'), op2_arm_imm, S_field))
Enc('AddSpPlusImmediateA1', 'A', 'cond 001 0100 S 1101 Rd imm12', family=FAM, guard=not_subs_pc,
    sem=dp('add', fld('Rd'), lambda f: 13, op2_arm_imm, S_field))
Enc('SubImmediateArmA1', 'A', 'cond 001 0010 S Rn Rd imm12', family=FAM,
    guard=lambda f: z3.And(not_subs_pc(f), f['Rn'] != 15, f['Rn'] != 13),
    sem=dp('sub', fld('Rd'), fld('Rn'), op2_arm_imm, S_field))
Enc('SubSpMinusImmediateA1', 'A', 'cond 001 0010 S 1101 Rd imm12', family=FAM, guard=not_subs_pc,
    sem=dp('sub', fld('Rd'), lambda f: 13, op2_arm_imm, S_field))
Enc('AddRegisterArmA1', 'A', 'cond 000 0100 S Rn Rd imm5 type 0 Rm', family=FAM,
    guard=lambda f: z3.And(not_subs_pc(f), f['Rn'] != 13),
    sem=dp('add', fld('Rd'), fld('Rn'), op2_reg_immshift(), S_field))
Enc('AddSpPlusRegisterArmA1', 'A', 'cond 000 0100 S 1101 Rd imm5 type 0 Rm', family=FAM, guard=not_subs_pc,
    sem=dp('add', fld('Rd'), lambda f: 13, op2_reg_immshift(), S_field))
Enc('SubRegisterA1', 'A', 'cond 000 0010 S Rn Rd imm5 type 0 Rm', family=FAM,
    guard=lambda f: z3.And(not_subs_pc(f), f['Rn'] != 13),
    sem=dp('sub', fld('Rd'), fld('Rn'), op2_reg_immshift(), S_field))
Enc('SubSpMinusRegisterA1', 'A', 'cond 000 0010 S 1101 Rd imm5 type 0 Rm', family=FAM, guard=not_subs_pc,
    sem=dp('sub', fld('Rd'), lambda f: 13, op2_reg_immshift(), S_field))


def adr_sem(add, imm):
    def sem(S, f):
        base = S.pc_read() & BV(0xFFFFFFFC, 32)
        v = imm(S, f)
        result = base + v if add else base - v
        write_reg_or_pc(S, f['Rd'], result, lambda T, x: T.alu_write_pc(x))
    return sem


Enc('AdrA1', 'A', 'cond 001 0100 0 1111 Rd imm12', family=FAM, sem=adr_sem(True, lambda S, f: op2_arm_imm(S, f)[0]))
Enc('AdrA2', 'A', 'cond 001 0010 0 1111 Rd imm12', family=FAM, sem=adr_sem(False, lambda S, f: op2_arm_imm(S, f)[0]))

# compare / test
for op in ('tst', 'teq', 'cmp', 'cmn'):
    C = op.capitalize()
    Enc(C + 'ImmediateA1', 'A', 'cond 001 %s 1 Rn (0)(0)(0)(0) imm12' % b4(OPC[op]), family=FAM,
        sem=dp(op, None, fld('Rn'), op2_arm_imm, S_true))
    Enc(C + 'RegisterA1', 'A', 'cond 000 %s 1 Rn (0)(0)(0)(0) imm5 type 0 Rm' % b4(OPC[op]), family=FAM,
        sem=dp(op, None, fld('Rn'), op2_reg_immshift(), S_true))
    Enc(C + 'RegisterShiftedRegisterA1', 'A', 'cond 000 %s 1 Rn (0)(0)(0)(0) Rs 0 type 1 Rm' % b4(OPC[op]),
        family=FAM, unpred=lambda f, S: z3.Or(f['Rn'] == 15, f['Rm'] == 15, f['Rs'] == 15),
        sem=dp(op, None, fld('Rn'), op2_reg_regshift, S_true))

# MOV / MVN / shifts
Enc('MovImmediateA1', 'A', 'cond 001 1101 S (0)(0)(0)(0) Rd imm12', family=FAM, guard=not_subs_pc,
    sem=dp('mov', fld('Rd'), None, op2_arm_imm, S_field))
Enc('MovImmediateA2', 'A', 'cond 0011 0000 imm4 Rd imm12', family=FAM, arch=7,
    unpred=lambda f, S: f['Rd'] == 15,
    sem=dp('mov', fld('Rd'), None, op2_const(lambda f: zx(cat(f['imm4'], f['imm12']), 32)), S_false))
Enc('MvnImmediateA1', 'A', 'cond 001 1111 S (0)(0)(0)(0) Rd imm12', family=FAM, guard=not_subs_pc,
    sem=dp('mvn', fld('Rd'), None, op2_arm_imm, S_field))
Enc('MvnRegisterA1', 'A', 'cond 000 1111 S (0)(0)(0)(0) Rd imm5 type 0 Rm', family=FAM, guard=not_subs_pc,
    sem=dp('mvn', fld('Rd'), None, op2_reg_immshift(), S_field))
Enc('MvnRegisterShiftedRegisterA1', 'A', 'cond 000 1111 S (0)(0)(0)(0) Rd Rs 0 type 1 Rm', family=FAM,
    unpred=lambda f, S: z3.Or(f['Rd'] == 15, f['Rm'] == 15, f['Rs'] == 15),
    sem=dp('mvn', fld('Rd'), None, op2_reg_regshift, S_field))
Enc('MovRegisterArmA1', 'A', 'cond 000 1101 S (0)(0)(0)(0) Rd 00000 00 0 Rm', family=FAM, guard=not_subs_pc,
    sem=dp('mov', fld('Rd'), None, op2_reg(fld('Rm')), S_field))


def shift_imm_sem(kind):
    """LSL/LSR/ASR/ROR (immediate), RRX: MOV Rd, Rm, <shift> #imm"""
    def op2(S, f):
        if kind == P.RRX:
            return P.shift_c(S.reg(f['Rm']), P.RRX, BV(1, 6), S.cbit(C_))
        ty = {P.LSL: 0, P.LSR: 1, P.ASR: 2, P.ROR: 3}[kind]
        k, amount = P.decode_imm_shift(BV(ty, 2), f['imm5'])
        return P.shift_c(S.reg(f['Rm']), kind, amount, S.cbit(C_))
    return dp('mov', fld('Rd'), None, op2, S_field)


Enc('LslImmediateA1', 'A', 'cond 000 1101 S (0)(0)(0)(0) Rd imm5 00 0 Rm', family=FAM,
    guard=lambda f: z3.And(not_subs_pc(f), f['imm5'] != 0), sem=shift_imm_sem(P.LSL))
Enc('LsrImmediateA1', 'A', 'cond 000 1101 S (0)(0)(0)(0) Rd imm5 01 0 Rm', family=FAM, guard=not_subs_pc,
    sem=shift_imm_sem(P.LSR))
Enc('AsrImmediateA1', 'A', 'cond 000 1101 S (0)(0)(0)(0) Rd imm5 10 0 Rm', family=FAM, guard=not_subs_pc,
    sem=shift_imm_sem(P.ASR))
Enc('RorImmediateA1', 'A', 'cond 000 1101 S (0)(0)(0)(0) Rd imm5 11 0 Rm', family=FAM,
    guard=lambda f: z3.And(not_subs_pc(f), f['imm5'] != 0), sem=shift_imm_sem(P.ROR))
Enc('RrxA1', 'A', 'cond 000 1101 S (0)(0)(0)(0) Rd 00000 11 0 Rm', family=FAM, guard=not_subs_pc,
    sem=shift_imm_sem(P.RRX))


def shift_reg_sem(kind, d='Rd', n='Rn', m='Rm', sflag=S_field):
    """LSL/LSR/ASR/ROR (register): Rd = Shift(R[n], kind, R[m]<7:0>)"""
    def op2(S, f):
        amount = bits(S.reg(f[m]), 7, 0)
        return P.shift_c(S.reg(f[n]), kind, amount, S.cbit(C_))
    return dp('mov', fld(d), None, op2, sflag)


for nm, k, ty in (('Lsl', P.LSL, '00'), ('Lsr', P.LSR, '01'), ('Asr', P.ASR, '10'), ('Ror', P.ROR, '11')):
    Enc(nm + 'RegisterA1', 'A', 'cond 000 1101 S (0)(0)(0)(0) Rd Rm 0 %s 1 Rn' % ty, family=FAM,
        unpred=lambda f, S: z3.Or(f['Rd'] == 15, f['Rn'] == 15, f['Rm'] == 15), sem=shift_reg_sem(k))


def movt_sem(S, f):
    imm16 = cat(f['imm4'], f['imm12']) if 'imm12' in f else cat(f['imm4'], f['i'], f['imm3'], f['imm8'])
    old = S.reg(f['Rd'])
    S.set_reg(f['Rd'], cat(imm16, bits(old, 15, 0)))


Enc('MovtA1', 'A', 'cond 0011 0100 imm4 Rd imm12', family=FAM, arch=7, unpred=lambda f, S: f['Rd'] == 15,
    sem=movt_sem)

# ===========================================================================
# Thumb 16-bit
# ===========================================================================
def r3(name):
    return lambda f: zx(f[name], 4)


def imm_zx(name):
    return op2_const(lambda f: zx(f[name], 32))


def t16_shift_imm(kind, ty):
    def op2(S, f):
        k, amount = P.decode_imm_shift(BV(ty, 2), f['imm5'])
        return P.shift_c(S.reg(zx(f['Rm'], 4)), kind, amount, S.cbit(C_))
    return dp('mov', r3('Rd'), None, op2, S_not_it)


Enc('LslImmediateT1', 'T16', '000 00 imm5 Rm:3 Rd:3', family=FAM, guard=lambda f: f['imm5'] != 0,
    sem=t16_shift_imm(P.LSL, 0))
Enc('LsrImmediateT1', 'T16', '000 01 imm5 Rm:3 Rd:3', family=FAM, sem=t16_shift_imm(P.LSR, 1))
Enc('AsrImmediateT1', 'T16', '000 10 imm5 Rm:3 Rd:3', family=FAM, sem=t16_shift_imm(P.ASR, 2))
Enc('MovRegisterThumbT2', 'T16', '000 00 00000 Rm:3 Rd:3', family=FAM, unpred=lambda f, S: in_it_block(S),
    sem=dp('mov', r3('Rd'), None, op2_reg(r3('Rm')), S_true))
Enc('AddRegisterThumbT1', 'T16', '000 11 0 0 Rm:3 Rn:3 Rd:3', family=FAM,
    sem=dp('add', r3('Rd'), r3('Rn'), op2_reg(r3('Rm')), S_not_it))
Enc('SubRegisterT1', 'T16', '000 11 0 1 Rm:3 Rn:3 Rd:3', family=FAM,
    sem=dp('sub', r3('Rd'), r3('Rn'), op2_reg(r3('Rm')), S_not_it))
Enc('AddImmediateThumbT1', 'T16', '000 11 1 0 imm3 Rn:3 Rd:3', family=FAM,
    sem=dp('add', r3('Rd'), r3('Rn'), imm_zx('imm3'), S_not_it))
Enc('SubImmediateThumbT1', 'T16', '000 11 1 1 imm3 Rn:3 Rd:3', family=FAM,
    sem=dp('sub', r3('Rd'), r3('Rn'), imm_zx('imm3'), S_not_it))
Enc('MovImmediateT1', 'T16', '001 00 Rd:3 imm8', family=FAM, sem=dp('mov', r3('Rd'), None, imm_zx('imm8'), S_not_it))
Enc('CmpImmediateT1', 'T16', '001 01 Rn:3 imm8', family=FAM, sem=dp('cmp', None, r3('Rn'), imm_zx('imm8'), S_true))
Enc('AddImmediateThumbT2', 'T16', '001 10 Rdn:3 imm8', family=FAM,
    sem=dp('add', r3('Rdn'), r3('Rdn'), imm_zx('imm8'), S_not_it))
Enc('SubImmediateThumbT2', 'T16', '001 11 Rdn:3 imm8', family=FAM,
    sem=dp('sub', r3('Rdn'), r3('Rdn'), imm_zx('imm8'), S_not_it))

T16_DP = {'and': ('0000', 'AndRegisterT1'), 'eor': ('0001', 'EorRegisterT1'), 'adc': ('0101', 'AdcRegisterT1'),
          'sbc': ('0110', 'SbcRegisterT1'), 'orr': ('1100', 'OrrRegisterT1'), 'bic': ('1110', 'BicRegisterT1')}
for op, (code, name) in T16_DP.items():
    Enc(name, 'T16', '010000 %s Rm:3 Rdn:3' % code, family=FAM,
        sem=dp(op, r3('Rdn'), r3('Rdn'), op2_reg(r3('Rm')), S_not_it))
Enc('MvnRegisterT1', 'T16', '010000 1111 Rm:3 Rd:3', family=FAM,
    sem=dp('mvn', r3('Rd'), None, op2_reg(r3('Rm')), S_not_it))
Enc('TstRegisterT1', 'T16', '010000 1000 Rm:3 Rn:3', family=FAM,
    sem=dp('tst', None, r3('Rn'), op2_reg(r3('Rm')), S_true))
Enc('CmpRegisterT1', 'T16', '010000 1010 Rm:3 Rn:3', family=FAM,
    sem=dp('cmp', None, r3('Rn'), op2_reg(r3('Rm')), S_true))
Enc('CmnRegisterT1', 'T16', '010000 1011 Rm:3 Rn:3', family=FAM,
    sem=dp('cmn', None, r3('Rn'), op2_reg(r3('Rm')), S_true))
Enc('RsbImmediateT1', 'T16', '010000 1001 Rn:3 Rd:3', family=FAM,
    sem=dp('rsb', r3('Rd'), r3('Rn'), op2_const(lambda f: BV(0, 32)), S_not_it))


def t16_shift_reg(kind):
    def op2(S, f):
        amount = bits(S.reg(zx(f['Rm'], 4)), 7, 0)
        return P.shift_c(S.reg(zx(f['Rdn'], 4)), kind, amount, S.cbit(C_))
    return dp('mov', r3('Rdn'), None, op2, S_not_it)


Enc('LslRegisterT1', 'T16', '010000 0010 Rm:3 Rdn:3', family=FAM, sem=t16_shift_reg(P.LSL))
Enc('LsrRegisterT1', 'T16', '010000 0011 Rm:3 Rdn:3', family=FAM, sem=t16_shift_reg(P.LSR))
Enc('AsrRegisterT1', 'T16', '010000 0100 Rm:3 Rdn:3', family=FAM, sem=t16_shift_reg(P.ASR))
Enc('RorRegisterT1', 'T16', '010000 0111 Rm:3 Rdn:3', family=FAM, sem=t16_shift_reg(P.ROR))


def dn(f):
    return cat(f['DN'], f['Rdn'])


def it_not_last(S):
    return z3.And(in_it_block(S), z3.Not(last_in_it_block(S)))


Enc('AddRegisterThumbT2', 'T16', '010001 00 DN Rm:4 Rdn:3', family=FAM,
    guard=lambda f: z3.And(dn(f) != 13, f['Rm'] != 13),
    unpred=lambda f, S: z3.Or(z3.And(dn(f) == 15, f['Rm'] == 15), z3.And(dn(f) == 15, it_not_last(S))),
    sem=dp('add', dn, dn, op2_reg(fld('Rm')), S_false))
Enc('AddSpPlusRegisterThumbT1', 'T16', '010001 00 DM:1 1101 Rdm:3', family=FAM,
    unpred=lambda f, S: z3.And(cat(f['DM'], f['Rdm']) == 15, it_not_last(S)),
    sem=dp('add', lambda f: cat(f['DM'], f['Rdm']), lambda f: 13, op2_reg(lambda f: cat(f['DM'], f['Rdm'])), S_false))
Enc('AddSpPlusRegisterThumbT2', 'T16', '010001 00 1 Rm:4 101', family=FAM, guard=lambda f: f['Rm'] != 13,
    sem=dp('add', lambda f: 13, lambda f: 13, op2_reg(fld('Rm')), S_false))
Enc('CmpRegisterT2', 'T16', '010001 01 N Rm:4 Rn:3', family=FAM,
    unpred=lambda f, S: z3.Or(z3.And(f['N'] == 0, z3.ULT(f['Rm'], 8)), cat(f['N'], f['Rn']) == 15, f['Rm'] == 15),
    sem=dp('cmp', None, lambda f: cat(f['N'], f['Rn']), op2_reg(fld('Rm')), S_true))
Enc('MovRegisterThumbT1', 'T16', '010001 10 D Rm:4 Rd:3', family=FAM,
    unpred=lambda f, S: z3.And(cat(f['D'], f['Rd']) == 15, it_not_last(S)),
    sem=dp('mov', lambda f: cat(f['D'], f['Rd']), None, op2_reg(fld('Rm')), S_false))


def t_adr_sem(add, imm):
    def sem(S, f):
        base = S.pc_read() & BV(0xFFFFFFFC, 32)
        v = imm(f)
        d = f['Rd'] if f['Rd'].size() == 4 else zx(f['Rd'], 4)
        S.set_reg(d, base + v if add else base - v)
    return sem


Enc('AdrT1', 'T16', '10100 Rd:3 imm8', family=FAM, sem=t_adr_sem(True, lambda f: zx(cat(f['imm8'], BV(0, 2)), 32)))
Enc('AddSpPlusImmediateT1', 'T16', '10101 Rd:3 imm8', family=FAM,
    sem=dp('add', r3('Rd'), lambda f: 13, op2_const(lambda f: zx(cat(f['imm8'], BV(0, 2)), 32)), S_false))
Enc('AddSpPlusImmediateT2', 'T16', '1011 0000 0 imm7', family=FAM,
    sem=dp('add', lambda f: 13, lambda f: 13, op2_const(lambda f: zx(cat(f['imm7'], BV(0, 2)), 32)), S_false))
Enc('SubSpMinusImmediateT1', 'T16', '1011 0000 1 imm7', family=FAM,
    sem=dp('sub', lambda f: 13, lambda f: 13, op2_const(lambda f: zx(cat(f['imm7'], BV(0, 2)), 32)), S_false))

# ===========================================================================
# Thumb 32-bit
# ===========================================================================
def rd_is_pc_s(f):
    return z3.And(f['Rd'] == 15, f['S'] == 1)


def unp_dn(f, S):
    return z3.Or(badreg(f['Rd']), badreg(f['Rn']))


def unp_logic_imm(f, S):
    return z3.Or(f['Rd'] == 13, z3.And(f['Rd'] == 15, f['S'] == 0), badreg(f['Rn']))


MI = '11110 i 0 %s S Rn 0 imm3 Rd imm8'
Enc('AndImmediateT1', 'T32', MI % '0000', family=FAM, guard=lambda f: z3.Not(rd_is_pc_s(f)), unpred=unp_logic_imm,
    sem=dp('and', fld('Rd'), fld('Rn'), op2_thumb_imm, S_field))
Enc('TstImmediateT1', 'T32', '11110 i 0 0000 1 Rn 0 imm3 1111 imm8', family=FAM, unpred=lambda f, S: badreg(f['Rn']),
    sem=dp('tst', None, fld('Rn'), op2_thumb_imm, S_true))
Enc('BicImmediateT1', 'T32', MI % '0001', family=FAM, unpred=unp_dn,
    sem=dp('bic', fld('Rd'), fld('Rn'), op2_thumb_imm, S_field))
Enc('OrrImmediateT1', 'T32', MI % '0010', family=FAM, guard=lambda f: f['Rn'] != 15,
    unpred=lambda f, S: z3.Or(badreg(f['Rd']), f['Rn'] == 13),
    sem=dp('orr', fld('Rd'), fld('Rn'), op2_thumb_imm, S_field))
Enc('MovImmediateT2', 'T32', '11110 i 0 0010 S 1111 0 imm3 Rd imm8', family=FAM, unpred=lambda f, S: badreg(f['Rd']),
    sem=dp('mov', fld('Rd'), None, op2_thumb_imm, S_field))
Enc('OrnImmediateT1', 'T32', MI % '0011', family=FAM, guard=lambda f: f['Rn'] != 15,
    unpred=lambda f, S: z3.Or(badreg(f['Rd']), f['Rn'] == 13),
    sem=dp('orn', fld('Rd'), fld('Rn'), op2_thumb_imm, S_field))
Enc('MvnImmediateT1', 'T32', '11110 i 0 0011 S 1111 0 imm3 Rd imm8', family=FAM, unpred=lambda f, S: badreg(f['Rd']),
    sem=dp('mvn', fld('Rd'), None, op2_thumb_imm, S_field))
Enc('EorImmediateT1', 'T32', MI % '0100', family=FAM, guard=lambda f: z3.Not(rd_is_pc_s(f)), unpred=unp_logic_imm,
    sem=dp('eor', fld('Rd'), fld('Rn'), op2_thumb_imm, S_field))
Enc('TeqImmediateT1', 'T32', '11110 i 0 0100 1 Rn 0 imm3 1111 imm8', family=FAM, unpred=lambda f, S: badreg(f['Rn']),
    sem=dp('teq', None, fld('Rn'), op2_thumb_imm, S_true))
Enc('AddImmediateThumbT3', 'T32', MI % '1000', family=FAM,
    guard=lambda f: z3.And(z3.Not(rd_is_pc_s(f)), f['Rn'] != 13),
    unpred=lambda f, S: z3.Or(f['Rd'] == 13, z3.And(f['Rd'] == 15, f['S'] == 0), f['Rn'] == 15),
    sem=dp('add', fld('Rd'), fld('Rn'), op2_thumb_imm, S_field))
Enc('CmnImmediateT1', 'T32', '11110 i 0 1000 1 Rn 0 imm3 1111 imm8', family=FAM, unpred=lambda f, S: f['Rn'] == 15,
    sem=dp('cmn', None, fld('Rn'), op2_thumb_imm, S_true))
Enc('AddSpPlusImmediateT3', 'T32', '11110 i 0 1000 S 1101 0 imm3 Rd imm8', family=FAM,
    guard=lambda f: z3.Not(rd_is_pc_s(f)), unpred=lambda f, S: z3.And(f['Rd'] == 15, f['S'] == 0),
    sem=dp('add', fld('Rd'), lambda f: 13, op2_thumb_imm, S_field))
Enc('AdcImmediateT1', 'T32', MI % '1010', family=FAM, unpred=unp_dn,
    sem=dp('adc', fld('Rd'), fld('Rn'), op2_thumb_imm, S_field))
Enc('SbcImmediateT1', 'T32', MI % '1011', family=FAM, unpred=unp_dn,
    sem=dp('sbc', fld('Rd'), fld('Rn'), op2_thumb_imm, S_field))
Enc('SubImmediateThumbT3', 'T32', MI % '1101', family=FAM,
    guard=lambda f: z3.And(z3.Not(rd_is_pc_s(f)), f['Rn'] != 13),
    unpred=lambda f, S: z3.Or(f['Rd'] == 13, z3.And(f['Rd'] == 15, f['S'] == 0), f['Rn'] == 15),
    sem=dp('sub', fld('Rd'), fld('Rn'), op2_thumb_imm, S_field))
Enc('CmpImmediateT2', 'T32', '11110 i 0 1101 1 Rn 0 imm3 1111 imm8', family=FAM, unpred=lambda f, S: f['Rn'] == 15,
    sem=dp('cmp', None, fld('Rn'), op2_thumb_imm, S_true))
Enc('SubSpMinusImmediateT2', 'T32', '11110 i 0 1101 S 1101 0 imm3 Rd imm8', family=FAM,
    guard=lambda f: z3.Not(rd_is_pc_s(f)), unpred=lambda f, S: z3.And(f['Rd'] == 15, f['S'] == 0),
    sem=dp('sub', fld('Rd'), lambda f: 13, op2_thumb_imm, S_field))
Enc('RsbImmediateT2', 'T32', MI % '1110', family=FAM, unpred=unp_dn,
    sem=dp('rsb', fld('Rd'), fld('Rn'), op2_thumb_imm, S_field))


def imm12_zx(S, f):
    return zx(cat(f['i'], f['imm3'], f['imm8']), 32), S.cbit(C_)


Enc('AddImmediateThumbT4', 'T32', '11110 i 1 00000 Rn 0 imm3 Rd imm8', family=FAM,
    guard=lambda f: z3.And(f['Rn'] != 15, f['Rn'] != 13), unpred=lambda f, S: badreg(f['Rd']),
    sem=dp('add', fld('Rd'), fld('Rn'), imm12_zx, S_false))
Enc('AddSpPlusImmediateT4', 'T32', '11110 i 1 00000 1101 0 imm3 Rd imm8', family=FAM,
    unpred=lambda f, S: f['Rd'] == 15, sem=dp('add', fld('Rd'), lambda f: 13, imm12_zx, S_false))
Enc('SubImmediateThumbT4', 'T32', '11110 i 1 01010 Rn 0 imm3 Rd imm8', family=FAM,
    guard=lambda f: z3.And(f['Rn'] != 15, f['Rn'] != 13), unpred=lambda f, S: badreg(f['Rd']),
    sem=dp('sub', fld('Rd'), fld('Rn'), imm12_zx, S_false))
Enc('SubSpMinusImmediateT3', 'T32', '11110 i 1 01010 1101 0 imm3 Rd imm8', family=FAM,
    unpred=lambda f, S: f['Rd'] == 15, sem=dp('sub', fld('Rd'), lambda f: 13, imm12_zx, S_false))
Enc('AdrT3', 'T32', '11110 i 1 00000 1111 0 imm3 Rd imm8', family=FAM, unpred=lambda f, S: badreg(f['Rd']),
    sem=t_adr_sem(True, lambda f: zx(cat(f['i'], f['imm3'], f['imm8']), 32)))
Enc('AdrT2', 'T32', '11110 i 1 01010 1111 0 imm3 Rd imm8', family=FAM, unpred=lambda f, S: badreg(f['Rd']),
    sem=t_adr_sem(False, lambda f: zx(cat(f['i'], f['imm3'], f['imm8']), 32)))
Enc('MovImmediateT3', 'T32', '11110 i 1 00100 imm4 0 imm3 Rd imm8', family=FAM, unpred=lambda f, S: badreg(f['Rd']),
    sem=dp('mov', fld('Rd'), None, op2_const(lambda f: zx(cat(f['imm4'], f['i'], f['imm3'], f['imm8']), 32)),
           S_false))
Enc('MovtT1', 'T32', '11110 i 1 01100 imm4 0 imm3 Rd imm8', family=FAM, unpred=lambda f, S: badreg(f['Rd']),
    sem=movt_sem)

# shifted register
imm32_ = lambda f: cat(f['imm3'], f['imm2'])
SR = '11101 01 %s S Rn (0) imm3 Rd imm2 type Rm'
t32_op2 = op2_reg_immshift(imm=imm32_)


def unp_dnm(f, S):
    return z3.Or(badreg(f['Rd']), badreg(f['Rn']), badreg(f['Rm']))


def unp_logic_reg(f, S):
    return z3.Or(f['Rd'] == 13, z3.And(f['Rd'] == 15, f['S'] == 0), badreg(f['Rn']), badreg(f['Rm']))


def unp_arith_reg(f, S):
    return z3.Or(f['Rd'] == 13, z3.And(f['Rd'] == 15, f['S'] == 0), f['Rn'] == 15, badreg(f['Rm']))


Enc('AndRegisterT2', 'T32', SR % '0000', family=FAM, guard=lambda f: z3.Not(rd_is_pc_s(f)), unpred=unp_logic_reg,
    sem=dp('and', fld('Rd'), fld('Rn'), t32_op2, S_field))
Enc('TstRegisterT2', 'T32', '11101 01 0000 1 Rn (0) imm3 1111 imm2 type Rm', family=FAM,
    unpred=lambda f, S: z3.Or(badreg(f['Rn']), badreg(f['Rm'])), sem=dp('tst', None, fld('Rn'), t32_op2, S_true))
Enc('BicRegisterT2', 'T32', SR % '0001', family=FAM, unpred=unp_dnm,
    sem=dp('bic', fld('Rd'), fld('Rn'), t32_op2, S_field))
Enc('OrrRegisterT2', 'T32', SR % '0010', family=FAM, guard=lambda f: f['Rn'] != 15,
    unpred=lambda f, S: z3.Or(badreg(f['Rd']), f['Rn'] == 13, badreg(f['Rm'])),
    sem=dp('orr', fld('Rd'), fld('Rn'), t32_op2, S_field))
Enc('OrnRegisterT1', 'T32', SR % '0011', family=FAM, guard=lambda f: f['Rn'] != 15,
    unpred=lambda f, S: z3.Or(badreg(f['Rd']), f['Rn'] == 13, badreg(f['Rm'])),
    sem=dp('orn', fld('Rd'), fld('Rn'), t32_op2, S_field))
Enc('MvnRegisterT2', 'T32', '11101 01 0011 S 1111 (0) imm3 Rd imm2 type Rm', family=FAM,
    unpred=lambda f, S: z3.Or(badreg(f['Rd']), badreg(f['Rm'])), sem=dp('mvn', fld('Rd'), None, t32_op2, S_field))
Enc('EorRegisterT2', 'T32', SR % '0100', family=FAM, guard=lambda f: z3.Not(rd_is_pc_s(f)), unpred=unp_logic_reg,
    sem=dp('eor', fld('Rd'), fld('Rn'), t32_op2, S_field))
Enc('TeqRegisterT1', 'T32', '11101 01 0100 1 Rn (0) imm3 1111 imm2 type Rm', family=FAM,
    unpred=lambda f, S: z3.Or(badreg(f['Rn']), badreg(f['Rm'])), sem=dp('teq', None, fld('Rn'), t32_op2, S_true))
Enc('AddRegisterThumbT3', 'T32', SR % '1000', family=FAM,
    guard=lambda f: z3.And(z3.Not(rd_is_pc_s(f)), f['Rn'] != 13), unpred=unp_arith_reg,
    sem=dp('add', fld('Rd'), fld('Rn'), t32_op2, S_field))
Enc('CmnRegisterT2', 'T32', '11101 01 1000 1 Rn (0) imm3 1111 imm2 type Rm', family=FAM,
    unpred=lambda f, S: z3.Or(f['Rn'] == 15, badreg(f['Rm'])), sem=dp('cmn', None, fld('Rn'), t32_op2, S_true))


def unp_sp_reg(f, S):
    kind, amount = P.decode_imm_shift(f['type'], imm32_(f))
    return z3.Or(z3.And(f['Rd'] == 13, z3.Or(kind != P.LSL, z3.UGT(amount, 3))), z3.And(f['Rd'] == 15, f['S'] == 0),
                 badreg(f['Rm']))


Enc('AddSpPlusRegisterThumbT3', 'T32', '11101 01 1000 S 1101 0 imm3 Rd imm2 type Rm', family=FAM,
    guard=lambda f: z3.Not(rd_is_pc_s(f)), unpred=unp_sp_reg,
    sem=dp('add', fld('Rd'), lambda f: 13, t32_op2, S_field))
Enc('AdcRegisterT2', 'T32', SR % '1010', family=FAM, unpred=unp_dnm,
    sem=dp('adc', fld('Rd'), fld('Rn'), t32_op2, S_field))
Enc('SbcRegisterT2', 'T32', SR % '1011', family=FAM, unpred=unp_dnm,
    sem=dp('sbc', fld('Rd'), fld('Rn'), t32_op2, S_field))
Enc('SubRegisterT2', 'T32', SR % '1101', family=FAM,
    guard=lambda f: z3.And(z3.Not(rd_is_pc_s(f)), f['Rn'] != 13), unpred=unp_arith_reg,
    sem=dp('sub', fld('Rd'), fld('Rn'), t32_op2, S_field))
Enc('CmpRegisterT3', 'T32', '11101 01 1101 1 Rn (0) imm3 1111 imm2 type Rm', family=FAM,
    unpred=lambda f, S: z3.Or(f['Rn'] == 15, badreg(f['Rm'])), sem=dp('cmp', None, fld('Rn'), t32_op2, S_true))
Enc('SubSpMinusRegisterT1', 'T32', '11101 01 1101 S 1101 0 imm3 Rd imm2 type Rm', family=FAM,
    guard=lambda f: z3.Not(rd_is_pc_s(f)), unpred=unp_sp_reg,
    sem=dp('sub', fld('Rd'), lambda f: 13, t32_op2, S_field))
Enc('RsbRegisterT1', 'T32', SR % '1110', family=FAM, unpred=unp_dnm,
    sem=dp('rsb', fld('Rd'), fld('Rn'), t32_op2, S_field))

# MOV (register) T3 and the immediate shifts (ORR with Rn = 1111)
MS = '11101 01 0010 S 1111 (0) imm3 Rd imm2 %s Rm'


def unp_mov_t3(f, S):
    s = f['S'] == 1
    return z3.Or(z3.And(s, z3.Or(badreg(f['Rd']), badreg(f['Rm']))),
                 z3.And(z3.Not(s), z3.Or(f['Rd'] == 15, f['Rm'] == 15, z3.And(f['Rd'] == 13, f['Rm'] == 13))))


Enc('MovRegisterThumbT3', 'T32', '11101 01 0010 S 1111 (0) 000 Rd 00 00 Rm', family=FAM, unpred=unp_mov_t3,
    sem=dp('mov', fld('Rd'), None, op2_reg(fld('Rm')), S_field))


def t32_shift_imm(kind, ty):
    def op2(S, f):
        if kind == P.RRX:
            return P.shift_c(S.reg(f['Rm']), P.RRX, BV(1, 6), S.cbit(C_))
        k, amount = P.decode_imm_shift(BV(ty, 2), imm32_(f))
        return P.shift_c(S.reg(f['Rm']), kind, amount, S.cbit(C_))
    return dp('mov', fld('Rd'), None, op2, S_field)


unp_dm = lambda f, S: z3.Or(badreg(f['Rd']), badreg(f['Rm']))
Enc('LslImmediateT2', 'T32', MS % '00', family=FAM, guard=lambda f: imm32_(f) != 0, unpred=unp_dm,
    sem=t32_shift_imm(P.LSL, 0))
Enc('LsrImmediateT2', 'T32', MS % '01', family=FAM, unpred=unp_dm, sem=t32_shift_imm(P.LSR, 1))
Enc('AsrImmediateT2', 'T32', MS % '10', family=FAM, unpred=unp_dm, sem=t32_shift_imm(P.ASR, 2))
Enc('RorImmediateT1', 'T32', MS % '11', family=FAM, guard=lambda f: imm32_(f) != 0, unpred=unp_dm,
    sem=t32_shift_imm(P.ROR, 3))
Enc('RrxT1', 'T32', '11101 01 0010 S 1111 (0) 000 Rd 00 11 Rm', family=FAM, unpred=unp_dm,
    sem=t32_shift_imm(P.RRX, 3))

for nm, k, ty in (('Lsl', P.LSL, '00'), ('Lsr', P.LSR, '01'), ('Asr', P.ASR, '10'), ('Ror', P.ROR, '11')):
    Enc(nm + 'RegisterT2', 'T32', '11111 010 0 %s S Rn 1111 Rd 0000 Rm' % ty, family=FAM, unpred=unp_dnm,
        sem=shift_reg_sem(k))
