"""Instruction table: parallel addition and subtraction (packed SIMD in the core registers), SEL, USAD8, USADA8.
DDI 0406C A8.8: {S,Q,SH,U,UQ,UH}{ADD16,ASX,SAX,SUB16,ADD8,SUB8} encodings A1 and T1 (A5.4.1/A5.4.2, A6.3.13/14),
SEL (A8.8.165), USAD8 / USADA8 (A8.8.253/254)."""
import z3

from . import pseudo as P
from .pseudo import BV, bv, bits, bit, zx, sx, cat, b1
from .isa import Enc, any_of

FAM = 'simd'


def badreg(x):
    return any_of(x, 13, 15)


def unp_arm(*names):
    return lambda f, S: z3.Or(*[f[n] == 15 for n in names])


def unp_thumb(*names):
    return lambda f, S: z3.Or(*[badreg(f[n]) for n in names])


# ---------------------------------------------------------------------------
# lane arithmetic: every lane value is the exact integer, held in w+2 bits two's complement
# ---------------------------------------------------------------------------

def lanes(x, w):
    """list of the w-bit lanes of a 32-bit value, least significant first"""
    return [bits(x, i + w - 1, i) for i in range(0, 32, w)]


def pas_sem(prefix, kind):
    """prefix: 's' 'q' 'sh' 'u' 'uq' 'uh'; kind: 'add16' 'asx' 'sax' 'sub16' 'add8' 'sub8'"""
    signed = prefix in ('s', 'q', 'sh')
    w = 8 if kind.endswith('8') else 16
    W = w + 2

    def sem(S, f):
        rn = S.reg(f['Rn'])
        rm = S.reg(f['Rm'])
        ext = (lambda t: sx(t, W)) if signed else (lambda t: zx(t, W))
        n = [ext(t) for t in lanes(rn, w)]
        m = [ext(t) for t in lanes(rm, w)]
        if kind in ('add16', 'add8'):
            vals = [(a + b, True) for a, b in zip(n, m)]
        elif kind in ('sub16', 'sub8'):
            vals = [(a - b, False) for a, b in zip(n, m)]
        elif kind == 'asx':  # low lane: Rn.lo - Rm.hi ; high lane: Rn.hi + Rm.lo
            vals = [(n[0] - m[1], False), (n[1] + m[0], True)]
        else:  # sax: low lane: Rn.lo + Rm.hi ; high lane: Rn.hi - Rm.lo
            vals = [(n[0] + m[1], True), (n[1] - m[0], False)]
        out = []
        ge = []
        for v, is_add in vals:
            if prefix in ('s', 'u'):
                out.append(bits(v, w - 1, 0))
                if signed or not is_add:
                    g = v >= 0  # signed comparison on the exact value
                else:
                    g = v >= BV(1 << w, W)  # exact value is non-negative here; signed compare in w+2 bits is exact
                ge.append(g)
            elif prefix == 'q':
                out.append(P.signed_sat_q(v, w)[0])
            elif prefix == 'uq':
                out.append(P.unsigned_sat_q(v, w)[0])
            else:  # halving: bits <w:1> of the exact value
                out.append(bits(v, w, 1))
        S.set_reg(f['Rd'], cat(*reversed(out)))
        if prefix in ('s', 'u'):
            per = 4 // len(ge)
            gebits = []
            for g in ge:
                gebits += [b1(g)] * per
            S.set_ge(cat(*reversed(gebits)))
    return sem


A_PREFIX = {'s': '001', 'q': '010', 'sh': '011', 'u': '101', 'uq': '110', 'uh': '111'}
A_KIND = {'add16': '000', 'asx': '001', 'sax': '010', 'sub16': '011', 'add8': '100', 'sub8': '111'}
T_KIND = {'add16': '001', 'asx': '010', 'sax': '110', 'sub16': '101', 'add8': '000', 'sub8': '100'}
T_PREFIX = {'s': '0 00', 'q': '0 01', 'sh': '0 10', 'u': '1 00', 'uq': '1 01', 'uh': '1 10'}

for pfx in A_PREFIX:
    for kd in A_KIND:
        nm = (pfx + kd).capitalize()
        Enc(nm + 'A1', 'A', 'cond 01100 %s Rn Rd (1)(1)(1)(1) %s 1 Rm' % (A_PREFIX[pfx], A_KIND[kd]), family=FAM,
            arch=6, unpred=unp_arm('Rd', 'Rn', 'Rm'), sem=pas_sem(pfx, kd))
        Enc(nm + 'T1', 'T32', '11111 010 1 %s Rn 1111 Rd 0 %s Rm' % (T_KIND[kd], T_PREFIX[pfx]), family=FAM,
            arch=6, unpred=unp_thumb('Rd', 'Rn', 'Rm'), sem=pas_sem(pfx, kd))


# ---------------------------------------------------------------------------
# SEL
# ---------------------------------------------------------------------------

def sel_sem(S, f):
    rn = S.reg(f['Rn'])
    rm = S.reg(f['Rm'])
    ge = S.ge()
    out = [z3.If(bit(ge, i), bits(rn, 8 * i + 7, 8 * i), bits(rm, 8 * i + 7, 8 * i)) for i in range(4)]
    S.set_reg(f['Rd'], cat(*reversed(out)))


Enc('SelA1', 'A', 'cond 01101000 Rn Rd (1)(1)(1)(1) 1011 Rm', family=FAM, arch=6,
    unpred=unp_arm('Rd', 'Rn', 'Rm'), sem=sel_sem)
Enc('SelT1', 'T32', '11111 010 1 010 Rn 1111 Rd 1 000 Rm', family=FAM, arch=6,
    unpred=unp_thumb('Rd', 'Rn', 'Rm'), sem=sel_sem)


# ---------------------------------------------------------------------------
# USAD8 / USADA8
# ---------------------------------------------------------------------------

def usad_sem(acc):
    def sem(S, f):
        rn = S.reg(f['Rn'])
        rm = S.reg(f['Rm'])
        total = S.reg(f['Ra']) if acc else BV(0, 32)
        for a, b in zip(lanes(rn, 8), lanes(rm, 8)):
            d = zx(a, 32) - zx(b, 32)  # exact UInt(a) - UInt(b)
            total = total + z3.If(d < 0, -d, d)
        S.set_reg(f['Rd'], total)
    return sem


Enc('Usad8A1', 'A', 'cond 01111000 Rd 1111 Rm 0001 Rn', family=FAM, arch=6,
    unpred=unp_arm('Rd', 'Rn', 'Rm'), sem=usad_sem(False))
Enc('Usada8A1', 'A', 'cond 01111000 Rd Ra Rm 0001 Rn', family=FAM, arch=6, guard=lambda f: f['Ra'] != 15,
    unpred=unp_arm('Rd', 'Rn', 'Rm'), sem=usad_sem(True))
Enc('Usad8T1', 'T32', '11111 011 0 111 Rn 1111 Rd 0000 Rm', family=FAM, arch=6,
    unpred=unp_thumb('Rd', 'Rn', 'Rm'), sem=usad_sem(False))
Enc('Usada8T1', 'T32', '11111 011 0 111 Rn Ra Rd 0000 Rm', family=FAM, arch=6, guard=lambda f: f['Ra'] != 15,
    unpred=lambda f, S: z3.Or(badreg(f['Rd']), badreg(f['Rn']), badreg(f['Rm']), f['Ra'] == 13),
    sem=usad_sem(True))
