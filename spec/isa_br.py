"""Instruction table: branches and miscellaneous control (family br_misc).  DDI 0406C A8.8:
B, BL/BLX (immediate), BLX (register), BX, BXJ, CBZ/CBNZ, TBB/TBH, IT, NOP/YIELD/WFE/WFI/SEV, SVC, SMC, BKPT, UDF,
ENTERX/LEAVEX."""
import z3

from . import pseudo as P
from . import isa as _isa
from .pseudo import BV, bv, bits, bit, zx, sx, cat
from .isa import Enc, any_of, in_it_block, last_in_it_block, raise_exc, aborted, AL
from .state import St, T_

FAM = 'br_misc'


class EncAlways(Enc):
    """Thumb encoding that executes unconditionally even inside an IT block (BKPT).  The framework's cond='none' is
    only honoured for ARM rows, so a constant pseudo-field cond = AL is injected and cond='field' is used."""

    def __init__(self, *a, **kw):
        kw['cond'] = 'field'
        Enc.__init__(self, *a, **kw)

    def word(self, mkvar):
        w, f = Enc.word(self, mkvar)
        f['cond'] = AL
        return w, f

    def match(self, word):
        m, f = Enc.match(self, word)
        f['cond'] = AL
        return m, f


def it_not_last(S):
    return z3.And(in_it_block(S), z3.Not(last_in_it_block(S)))


def it_cond_fails(S):
    """inside an IT block with a failing condition (only meaningful for Thumb rows)"""
    if not S.thumb:
        return z3.BoolVal(False)
    n, z, c, v = S.nzcv()
    return z3.And(in_it_block(S), z3.Not(P.condition_holds(bits(S.it(), 7, 4), n, z, c, v)))


def badreg(x):
    return any_of(x, 13, 15)


# ---------------------------------------------------------------------------------------------------------------
# B
# ---------------------------------------------------------------------------------------------------------------
def b_sem(imm):
    def sem(S, f):
        S.branch_write_pc(S.pc_read() + imm(f))
    return sem


def imm_t4(f, lo):
    """S:I1:I2:<hi>:<lo> with I1 = NOT(J1 EOR S), I2 = NOT(J2 EOR S)"""
    i1 = ~(f['J1'] ^ f['S'])
    i2 = ~(f['J2'] ^ f['S'])
    return sx(cat(f['S'], i1, i2, *lo), 32)


Enc('BA1', 'A', 'cond 1010 imm24', family=FAM, sem=b_sem(lambda f: sx(cat(f['imm24'], BV(0, 2)), 32)))
Enc('BT1', 'T16', '1101 cond imm8', family=FAM, cond='field',
    guard=lambda f: z3.And(f['cond'] != 0b1110, f['cond'] != 0b1111),  # UDF / SVC
    unpred=lambda f, S: in_it_block(S), sem=b_sem(lambda f: sx(cat(f['imm8'], BV(0, 1)), 32)))
Enc('BT2', 'T16', '11100 imm11', family=FAM, unpred=lambda f, S: it_not_last(S),
    sem=b_sem(lambda f: sx(cat(f['imm11'], BV(0, 1)), 32)))
Enc('BT3', 'T32', '11110 S cond imm6 10 J1 0 J2 imm11', family=FAM, cond='field',
    guard=lambda f: bits(f['cond'], 3, 1) != 0b111, unpred=lambda f, S: in_it_block(S),
    sem=b_sem(lambda f: sx(cat(f['S'], f['J2'], f['J1'], f['imm6'], f['imm11'], BV(0, 1)), 32)))
Enc('BT4', 'T32', '11110 S imm10 10 J1 1 J2 imm11', family=FAM, unpred=lambda f, S: it_not_last(S),
    sem=b_sem(lambda f: imm_t4(f, (f['imm10'], f['imm11'], BV(0, 1)))))


# ---------------------------------------------------------------------------------------------------------------
# BL, BLX (immediate)
# ---------------------------------------------------------------------------------------------------------------
def return_link(S):
    """LR value of BL/BLX: ARM: PC - 4; Thumb: PC<31:1>:'1' (address of the next instruction, bit 0 set)"""
    pc = S.pc_read()
    return cat(bits(pc, 31, 1), BV(1, 1)) if S.thumb else pc - 4


def bl_imm_sem(imm, target_arm):
    """target_arm: True (to ARM) | False (to Thumb)"""
    def sem(S, f):
        imm32 = imm(f)
        pc = S.pc_read()
        S.set_reg(14, return_link(S))
        target = (pc & BV(0xFFFFFFFC, 32)) + imm32 if target_arm else pc + imm32
        S.set_cbit(T_, z3.BoolVal(not target_arm))  # SelectInstrSet
        S.branch_write_pc(target)
    return sem


Enc('BlBlxImmediateA1', 'A', 'cond 1011 imm24', family=FAM,
    sem=bl_imm_sem(lambda f: sx(cat(f['imm24'], BV(0, 2)), 32), True))
Enc('BlBlxImmediateA2', 'A', '1111 101 H imm24', family=FAM,
    sem=bl_imm_sem(lambda f: sx(cat(f['imm24'], f['H'], BV(0, 1)), 32), False))
Enc('BlBlxImmediateT1', 'T32', '11110 S imm10 11 J1 1 J2 imm11', family=FAM, unpred=lambda f, S: it_not_last(S),
    sem=bl_imm_sem(lambda f: imm_t4(f, (f['imm10'], f['imm11'], BV(0, 1))), False))
Enc('BlBlxImmediateT2', 'T32', '11110 S imm10H:10 11 J1 0 J2 imm10L:10 H', family=FAM,
    undefined=lambda f, S: f['H'] == 1, unpred=lambda f, S: it_not_last(S),
    sem=bl_imm_sem(lambda f: imm_t4(f, (f['imm10H'], f['imm10L'], BV(0, 2))), True))


# ---------------------------------------------------------------------------------------------------------------
# BLX (register), BX, BXJ
# ---------------------------------------------------------------------------------------------------------------
def blx_reg_sem(S, f):
    target = S.reg(f['Rm'])
    pc = S.pc_read()
    if S.thumb:
        nxt = pc - 2
        lr = cat(bits(nxt, 31, 1), BV(1, 1))
    else:
        lr = pc - 4
    S.set_reg(14, lr)
    S.bx_write_pc(target)


def bx_sem(S, f):
    S.bx_write_pc(S.reg(f['Rm']))


def bxj_sem(S, f):
    # JMCR.JE == 0 (always so on a trivial Jazelle implementation): BXWritePC(R[m]).  JE == 1 without a Jazelle
    # implementation accepting execution is SUBARCHITECTURE DEFINED -> outside the claim
    if 'jmcr' in S.sys:
        S.unpredictable(bit(S.sys['jmcr'], 0))
    if S.have_virt:  # HSTR.TJDBX trap to Hyp mode: virtualization is out of scope
        S.unpredictable(z3.And(z3.Not(S.is_secure()), z3.Not(S.is_mode('hyp')), bit(S.sys['hstr'], 17)))
    S.bx_write_pc(S.reg(f['Rm']))


SBO12 = '(1)(1)(1)(1)(1)(1)(1)(1)(1)(1)(1)(1)'
Enc('BlxRegisterA1', 'A', 'cond 0001 0010 %s 0011 Rm' % SBO12, family=FAM, unpred=lambda f, S: f['Rm'] == 15,
    sem=blx_reg_sem)
Enc('BlxRegisterT1', 'T16', '010001 11 1 Rm:4 (0)(0)(0)', family=FAM,
    unpred=lambda f, S: z3.Or(f['Rm'] == 15, it_not_last(S)), sem=blx_reg_sem)
Enc('BxA1', 'A', 'cond 0001 0010 %s 0001 Rm' % SBO12, family=FAM, sem=bx_sem)
Enc('BxT1', 'T16', '010001 11 0 Rm:4 (0)(0)(0)', family=FAM, unpred=lambda f, S: it_not_last(S), sem=bx_sem)
Enc('BxjA1', 'A', 'cond 0001 0010 %s 0010 Rm' % SBO12, family=FAM, unpred=lambda f, S: f['Rm'] == 15, sem=bxj_sem)
Enc('BxjT1', 'T32', '11110 0 1111 00 Rm 10 (0) 0 (1)(1)(1)(1) (0)(0)(0)(0)(0)(0)(0)(0)', family=FAM,
    unpred=lambda f, S: z3.Or(badreg(f['Rm']), it_not_last(S)), sem=bxj_sem)


# ---------------------------------------------------------------------------------------------------------------
# CBZ / CBNZ, TBB / TBH, IT
# ---------------------------------------------------------------------------------------------------------------
def cbz_sem(S, f):
    imm32 = zx(cat(f['i'], f['imm5'], BV(0, 1)), 32)
    nonzero = f['op'] == 1
    iszero = S.reg(zx(f['Rn'], 4)) == 0
    T = S.copy()
    T.branch_write_pc(S.pc_read() + imm32)
    S.assign(St.merge(nonzero != iszero, T, S))


Enc('CbzT1', 'T16', '1011 op 0 i 1 imm5 Rn:3', family=FAM, unpred=lambda f, S: in_it_block(S), sem=cbz_sem,
    known=[('F013', lambda f, S: cat(f['i'], f['imm5']) != 0)])


def tbb_sem(S, f):
    is_tbh = f['H'] == 1
    rn = S.reg(f['Rn'])
    rm = S.reg(f['Rm'])
    addr_b = rn + rm
    addr_h = rn + (rm << 1)
    # MemU[.., 2] of TBH can take an alignment fault (SCTLR.A); the byte access of TBB cannot
    _isa._data_abort(S, z3.And(is_tbh, S.mem_u_fault(addr_h, 2)), addr_h, False, 0b00001, True)
    halfwords = z3.If(is_tbh, zx(S.mem_u_get(addr_h, 2), 32), zx(S.mem_u_get(addr_b, 1), 32))
    T = S.copy()
    T.branch_write_pc(S.pc_read() + 2 * halfwords)
    S.assign(St.merge(z3.Not(aborted(S)), T, S))


Enc('TbbTbhT1', 'T32', '11101 00 0 1 1 0 1 Rn (1)(1)(1)(1) (0)(0)(0)(0) 000 H Rm', family=FAM,
    unpred=lambda f, S: z3.Or(f['Rn'] == 13, badreg(f['Rm']), it_not_last(S)), sem=tbb_sem)


def it_sem(S, f):
    S.set_it(cat(f['firstcond'], f['mask']))


Enc('ItT1', 'T16', '1011 1111 firstcond mask', family=FAM,
    guard=lambda f: f['mask'] != 0,  # mask == 0000: NOP-compatible hints
    unpred=lambda f, S: z3.Or(f['firstcond'] == 0b1111,
                              z3.And(f['firstcond'] == 0b1110, P.bit_count(f['mask']) != 1), in_it_block(S)),
    sem=it_sem)


# ---------------------------------------------------------------------------------------------------------------
# hints: NOP YIELD WFE WFI SEV
# ---------------------------------------------------------------------------------------------------------------
def nop_sem(S, f):
    pass


def hyp_wfx_trap(S, hcr_bit):
    """HaveVirtExt() && !IsSecure() && !CurrentModeIsHyp() && HCR.TWE/TWI == '1'"""
    if not S.have_virt:
        return z3.BoolVal(False)
    return z3.And(z3.Not(S.is_secure()), z3.Not(S.is_mode('hyp')), bit(S.sys['hcr'], hcr_bit))


def wfe_sem(S, f):
    S.unpredictable(hyp_wfx_trap(S, 14))  # Hyp trap (HSR write) is out of scope: virtualization not modelled here
    ev = S.flags['event_register']
    # if EventRegistered() then ClearEventRegister() else WaitForEvent()
    S.flags['is_wait_for_event'] = z3.Or(S.flags['is_wait_for_event'], z3.Not(ev))
    S.flags['event_register'] = z3.BoolVal(False)


def wfi_sem(S, f):
    S.unpredictable(hyp_wfx_trap(S, 13))
    S.flags['is_wait_for_interrupt'] = z3.BoolVal(True)


TRUE = lambda f, S: z3.BoolVal(True)
HINTS = (('Nop', 0, nop_sem, None), ('Yield', 1, nop_sem, TRUE), ('Wfe', 2, wfe_sem, None), ('Wfi', 3, wfi_sem, None),
         ('Sev', 4, nop_sem, TRUE))  # Hint_Yield() / SendEvent() are unimplemented mock hooks in the repository
for nm, code, sem_, ni in HINTS:
    Enc(nm + 'A1', 'A', 'cond 0011 0010 0000 (1)(1)(1)(1) (0)(0)(0)(0) %s' % format(code, '08b'), family=FAM,
        sem=sem_, notimpl=ni)
    Enc(nm + 'T1', 'T16', '1011 1111 %s 0000' % format(code, '04b'), family=FAM, sem=sem_, notimpl=ni)
    Enc(nm + 'T2', 'T32', '11110 0 111 01 0 (1)(1)(1)(1) 10 (0) 0 (0) 000 %s' % format(code, '08b'), family=FAM,
        sem=sem_, notimpl=ni)


# ---------------------------------------------------------------------------------------------------------------
# SVC, SMC, BKPT, UDF, ENTERX/LEAVEX
# ---------------------------------------------------------------------------------------------------------------
def svc_sem(S, f):
    # CallSupervisor(): with the Virtualization Extensions the call can be routed to Hyp mode with an HSR write
    # (take_svc_exception routes; the HSR value is out of scope without virtualization)
    raise_exc(S, True, 'svc')


Enc('SvcA1', 'A', 'cond 1111 imm24', family=FAM, sem=svc_sem)
Enc('SvcT1', 'T16', '1101 1111 imm8', family=FAM, sem=svc_sem)


def smc_sem(S, f):
    if not S.have_sec:
        raise_exc(S, True, 'undef')
        return
    priv = S.privileged()
    if S.have_virt:  # HCR.TSC trap: out of scope
        S.unpredictable(z3.And(priv, z3.Not(S.is_secure()), z3.Not(S.is_mode('hyp')), bit(S.sys['hcr'], 19)))
    scd = bit(S.sys['scr'], 7)
    S.unpredictable(z3.And(priv, scd, S.is_secure()))
    raise_exc(S, z3.Or(z3.Not(priv), z3.And(scd, z3.Not(S.is_secure()))), 'undef')
    raise_exc(S, True, 'smc')


Enc('SmcA1', 'A', 'cond 0001 0110 (0)(0)(0)(0)(0)(0)(0)(0)(0)(0)(0)(0) 0111 imm4', family=FAM, sem=smc_sem)
Enc('SmcT1', 'T32', '11110 1111111 imm4 1000 (0)(0)(0)(0) (0)(0)(0)(0)(0)(0)(0)(0)', family=FAM,
    unpred=lambda f, S: it_not_last(S), sem=smc_sem)

# BKPT: BKPTInstrDebugEvent() -- a mock hook raising NotImplementedError in the repository.  Unconditional.
Enc('BkptA1', 'A', 'cond 0001 0010 imm12 0111 imm4', family=FAM, unpred=lambda f, S: f['cond'] != 0b1110,
    sem=nop_sem, notimpl=TRUE)
EncAlways('BkptT1', 'T16', '1011 1110 imm8', family=FAM, sem=nop_sem, notimpl=TRUE)

# UDF: permanently UNDEFINED.  Inside an IT block with a failing condition it is IMPLEMENTATION DEFINED whether
# an UNDEFINED instruction is a NOP or takes the exception -> excluded
Enc('UdfA1', 'A', '1110 0111 1111 imm12 1111 imm4', family=FAM, undefined=TRUE, sem=nop_sem)
Enc('UdfT1', 'T16', '1101 1110 imm8', family=FAM, undefined=TRUE, unpred=lambda f, S: it_cond_fails(S), sem=nop_sem)
Enc('UdfT2', 'T32', '11110 1111111 imm4 1010 imm12', family=FAM, undefined=TRUE,
    unpred=lambda f, S: it_cond_fails(S), sem=nop_sem)


def enterx_sem(S, f):
    # only reached on a ThumbEE implementation: ENTERX selects ThumbEE (J:T = 11); LEAVEX from Thumb state: no change
    S.cpsr = z3.If(f['J'] == 1, S.cpsr | BV(1 << 24, 32), S.cpsr)


Enc('EnterxLeavexT1', 'T32', '11110 0 111 01 1 (1)(1)(1)(1) 10 (0) 0 (1)(1)(1)(1) 000 J:1 (1)(1)(1)(1)', family=FAM,
    undefined=lambda f, S: z3.BoolVal(not S.cfg.get('thumbee', False)),  # ThumbEE not implemented: UNDEFINED
    unpred=lambda f, S: in_it_block(S), sem=enterx_sem,
    known=[('F041', lambda f, S: z3.BoolVal(not S.cfg.get('thumbee', False)))])
