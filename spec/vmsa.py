"""Oracle: VMSA short-descriptor translation (DDI 0406C B3.19: TranslateAddressV, TranslationTableWalkSD,
CheckDomain, CheckPermission, EncodeSDFSR, RemappedTEXDecode), stage 1 only, no LPAE, no virtualization."""
import z3

from . import pseudo as P
from .pseudo import BV, bv, bits, bit, zx, cat
from .pmsa import check_permission_fault

# DFSR.FS encodings, short-descriptor format (table B3-23)
FS_TRANS = {1: 0b00101, 2: 0b00111}
FS_ACCESS = {1: 0b00011, 2: 0b00110}
FS_DOMAIN = {1: 0b01001, 2: 0b01011}
FS_PERM = {1: 0b01101, 2: 0b01111}
FS_ALIGN = 0b00001

SO, DEVICE, NORMAL = 0, 1, 2


def read32(mem, addr, big_endian):
    bs = [P.sel8(mem, z3.simplify(addr + i)) for i in range(4)]
    le = cat(bs[3], bs[2], bs[1], bs[0])
    return z3.If(big_endian, P.big_endian_reverse(le), le)


def convert_attrs_hints(rgn):
    """RGN 2 bits -> (attrs 2 bits, hints 2 bits)"""
    rgn = bv(rgn, 2)
    attrs = z3.If(rgn == 0, BV(0, 2), z3.If(bit(rgn, 0), BV(0b11, 2), BV(0b10, 2)))
    hints = z3.If(rgn == 0, BV(0, 2), z3.If(bit(rgn, 0), cat(BV(1, 1), ~bits(rgn, 1, 1)), BV(0b10, 2)))
    return attrs, hints


def remapped_tex_decode(S, texcb, s):
    """returns dict(type, inner/outer attrs/hints, shareable, outershareable, unpred, impdef)"""
    prrr, nmrr = S.sys['prrr'], S.sys['nmrr']
    region = zx(bits(texcb, 2, 0), 32)
    tr = bits(z3.LShR(prrr, region * 2), 1, 0)
    ir = bits(z3.LShR(nmrr, region * 2), 1, 0)
    orr = bits(z3.LShR(nmrr, region * 2 + 16), 1, 0)
    nos = bits(z3.LShR(prrr, region + 24), 0, 0) == 1
    s_bit = z3.If(s, bit(prrr, 19), bit(prrr, 18))
    ia, ih = convert_attrs_hints(ir)
    oa, oh = convert_attrs_hints(orr)
    normal = tr == 2
    return {
        'type': z3.If(tr == 0, BV(SO, 2), z3.If(tr == 1, BV(DEVICE, 2), BV(NORMAL, 2))),
        'normal': normal,
        'innerattrs': ia, 'innerhints': ih, 'outerattrs': oa, 'outerhints': oh,
        'shareable': z3.If(normal, s_bit, z3.BoolVal(True)),
        'outershareable': z3.If(normal, z3.And(s_bit, z3.Not(nos)), z3.BoolVal(True)),
        'unpred': tr == 3,
        'impdef': bits(texcb, 2, 0) == 6,
    }


def translate_v_sd(S, va, ispriv, iswrite):
    """stage-1 short-descriptor translation with the MMU on.  ispriv/iswrite: z3 Bools.
    returns dict: fault Bool, fs (5 bits), domain (4 bits, 0 where not valid), pa (40 bits), ns, attrs, unpred"""
    sctlr = S.sys['sctlr']
    ee = bit(sctlr, 25)
    afe = bit(sctlr, 29)
    ha = bit(sctlr, 17)
    ttbcr = S.sys['ttbcr']
    pid = bits(S.sys['fcseidr'], 31, 25)
    mva = z3.If(bits(va, 31, 25) == 0, cat(pid, bits(va, 24, 0)), va)
    n = zx(bits(ttbcr, 2, 0), 32)
    use0 = z3.Or(n == 0, z3.LShR(mva, 32 - n) == 0)
    ttbr = z3.If(use0, bits(S.sys['ttbr0_64'], 31, 0), bits(S.sys['ttbr1_64'], 31, 0))
    disabled = z3.If(use0, bit(ttbcr, 4), bit(ttbcr, 5))  # PD0 / PD1
    nn = z3.If(use0, n, BV(0, 32))
    # l1descaddr = ttbr<31:14-n> : mva<31-n:20> : 00
    basemask = ~((BV(1, 32) << (14 - nn)) - 1)
    idx = z3.LShR(mva << nn, 20 + nn)  # mva<31-n:20>
    l1addr = (ttbr & basemask) | (idx << 2)
    l1 = read32(S.mem, l1addr, ee)
    t1 = bits(l1, 1, 0)
    # --- page table
    l2addr = cat(bits(l1, 31, 10), bits(mva, 19, 12), BV(0, 2))
    l2 = read32(S.mem, l2addr, ee)
    is_pt = t1 == 1
    is_sec = bit(l1, 1)
    is_super = z3.And(is_sec, bit(l1, 18))
    large = z3.Not(bit(l2, 1))
    level2 = is_pt
    domain = z3.If(is_pt, bits(l1, 8, 5), z3.If(is_super, BV(0, 4), bits(l1, 8, 5)))
    ap = z3.If(is_pt, cat(bits(l2, 9, 9), bits(l2, 5, 4)), cat(bits(l1, 15, 15), bits(l1, 11, 10)))
    texcb = z3.If(is_pt, z3.If(large, cat(bits(l2, 14, 12), bits(l2, 3, 2)), cat(bits(l2, 8, 6), bits(l2, 3, 2))),
                  cat(bits(l1, 14, 12), bits(l1, 3, 2)))
    sbit = z3.If(is_pt, bit(l2, 10), bit(l1, 16))
    nsd = z3.If(is_pt, bit(l1, 3), bit(l1, 19))
    af0 = z3.If(is_pt, z3.Not(bit(l2, 4)), z3.Not(bit(l1, 10)))
    pa32 = z3.If(is_pt, z3.If(large, cat(bits(l2, 31, 16), bits(mva, 15, 0)), cat(bits(l2, 31, 12), bits(mva, 11, 0))),
                 z3.If(is_super, cat(bits(l1, 31, 24), bits(mva, 23, 0)), cat(bits(l1, 31, 20), bits(mva, 19, 0))))
    paext = z3.If(is_super, cat(bits(l1, 8, 5), bits(l1, 23, 20)), BV(0, 8))
    # --- faults in architectural priority order
    f_dis = z3.And(z3.BoolVal(S.have_sec), disabled)
    f_tr1 = t1 == 0
    f_tr2 = z3.And(is_pt, bits(l2, 1, 0) == 0)
    f_af = z3.And(afe, af0, z3.Not(ha))
    hw_af_update = z3.And(afe, af0, ha)  # needs mem.set_bits: unimplemented in the repository
    dacr = S.sys['dacr']
    dfield = bits(z3.LShR(dacr, zx(domain, 32) * 2), 1, 0)
    f_dom = dfield == 0
    client = dfield == 1
    ap_eff = z3.If(afe, ap | 1, ap)
    pab, pun = check_permission_fault(ap_eff, ispriv, iswrite, vmsa=True)
    f_perm = z3.And(client, pab)
    lvl2 = level2
    fs = z3.If(z3.Or(f_dis, f_tr1), BV(FS_TRANS[1], 5),
               z3.If(f_tr2, BV(FS_TRANS[2], 5),
                     z3.If(f_af, z3.If(lvl2, BV(FS_ACCESS[2], 5), BV(FS_ACCESS[1], 5)),
                           z3.If(f_dom, z3.If(lvl2, BV(FS_DOMAIN[2], 5), BV(FS_DOMAIN[1], 5)),
                                 z3.If(lvl2, BV(FS_PERM[2], 5), BV(FS_PERM[1], 5))))))
    fault = z3.Or(f_dis, f_tr1, f_tr2, f_af, f_dom, f_perm)
    # DFSR.domain: valid for domain faults, level-2 translation / access-flag faults, permission faults (no LPAE)
    early = z3.Or(f_dis, f_tr1)
    dom_valid = z3.And(z3.Not(early), z3.Or(f_tr2, z3.And(f_af, lvl2), z3.And(z3.Not(f_af), z3.Or(f_dom, f_perm))))
    attrs = remapped_tex_decode(S, texcb, sbit)
    unpred = z3.And(z3.Not(z3.Or(f_dis, f_tr1, f_tr2, f_af)), z3.Or(dfield == 2, z3.And(client, pun)))
    return {
        'fault': fault, 'fs': fs, 'domain': z3.If(dom_valid, domain, BV(0, 4)), 'mva': mva,
        'pa': cat(paext, pa32), 'ns': z3.If(S.is_secure(), nsd, z3.BoolVal(True)), 'attrs': attrs,
        'unpred': unpred, 'hw_af_update': z3.And(z3.Not(z3.Or(f_dis, f_tr1, f_tr2)), hw_af_update),
        'walked': z3.Not(z3.Or(f_dis, f_tr1, f_tr2, f_af)),
        'l1type': t1, 'l2type': bits(l2, 1, 0),
    }
