"""Oracle: VMSA short-descriptor translation (DDI 0406C B3.19: TranslateAddressV, TranslationTableWalkSD,
CheckDomain, CheckPermission, EncodeSDFSR, RemappedTEXDecode), stage 1 only, no LPAE, no virtualization."""
import z3

from . import pseudo as P
from .pseudo import BV, bv, bits, bit, zx, cat
from .pmsa import check_permission_fault

# DFSR.FS encodings, short-descriptor format (table B3-23)
FS_TRANS = {1: 0b00101, 2: 0b00111}
FS_ACCESS = {1: 0b00011, 2: 0b00110}
FS_DOMAIN = {1: 0b01001, 2: 0b01011}
FS_PERM = {1: 0b01101, 2: 0b01111}
FS_ALIGN = 0b00001

SO, DEVICE, NORMAL = 0, 1, 2


def read32(mem, addr, big_endian):
    bs = [P.sel8(mem, z3.simplify(addr + i)) for i in range(4)]
    le = cat(bs[3], bs[2], bs[1], bs[0])
    return z3.If(big_endian, P.big_endian_reverse(le), le)


def convert_attrs_hints(rgn):
    """RGN 2 bits -> (attrs 2 bits, hints 2 bits)"""
    rgn = bv(rgn, 2)
    attrs = z3.If(rgn == 0, BV(0, 2), z3.If(bit(rgn, 0), BV(0b11, 2), BV(0b10, 2)))
    hints = z3.If(rgn == 0, BV(0, 2), z3.If(bit(rgn, 0), cat(BV(1, 1), ~bits(rgn, 1, 1)), BV(0b10, 2)))
    return attrs, hints


def remapped_tex_decode(S, texcb, s):
    """returns dict(type, inner/outer attrs/hints, shareable, outershareable, unpred, impdef)"""
    prrr, nmrr = S.sys['prrr'], S.sys['nmrr']
    region = zx(bits(texcb, 2, 0), 32)
    tr = bits(z3.LShR(prrr, region * 2), 1, 0)
    ir = bits(z3.LShR(nmrr, region * 2), 1, 0)
    orr = bits(z3.LShR(nmrr, region * 2 + 16), 1, 0)
    nos = bits(z3.LShR(prrr, region + 24), 0, 0) == 1
    s_bit = z3.If(s, bit(prrr, 19), bit(prrr, 18))
    ia, ih = convert_attrs_hints(ir)
    oa, oh = convert_attrs_hints(orr)
    normal = tr == 2
    return {
        'type': z3.If(tr == 0, BV(SO, 2), z3.If(tr == 1, BV(DEVICE, 2), BV(NORMAL, 2))),
        'normal': normal,
        'innerattrs': ia, 'innerhints': ih, 'outerattrs': oa, 'outerhints': oh,
        'shareable': z3.If(normal, s_bit, z3.BoolVal(True)),
        'outershareable': z3.If(normal, z3.And(s_bit, z3.Not(nos)), z3.BoolVal(True)),
        'unpred': tr == 3,
        'impdef': bits(texcb, 2, 0) == 6,
    }


def translate_v_sd(S, va, ispriv, iswrite):
    """stage-1 short-descriptor translation with the MMU on.  ispriv/iswrite: z3 Bools.
    returns dict: fault Bool, fs (5 bits), domain (4 bits, 0 where not valid), pa (40 bits), ns, attrs, unpred"""
    sctlr = S.sys['sctlr']
    ee = bit(sctlr, 25)
    afe = bit(sctlr, 29)
    ha = bit(sctlr, 17)
    ttbcr = S.sys['ttbcr']
    pid = bits(S.sys['fcseidr'], 31, 25)
    mva = z3.If(bits(va, 31, 25) == 0, cat(pid, bits(va, 24, 0)), va)
    n = zx(bits(ttbcr, 2, 0), 32)
    use0 = z3.Or(n == 0, z3.LShR(mva, 32 - n) == 0)
    ttbr = z3.If(use0, bits(S.sys['ttbr0_64'], 31, 0), bits(S.sys['ttbr1_64'], 31, 0))
    disabled = z3.If(use0, bit(ttbcr, 4), bit(ttbcr, 5))  # PD0 / PD1
    nn = z3.If(use0, n, BV(0, 32))
    # l1descaddr = ttbr<31:14-n> : mva<31-n:20> : 00
    basemask = ~((BV(1, 32) << (14 - nn)) - 1)
    idx = z3.LShR(mva << nn, 20 + nn)  # mva<31-n:20>
    l1addr = (ttbr & basemask) | (idx << 2)
    l1 = read32(S.mem, l1addr, ee)
    t1 = bits(l1, 1, 0)
    # --- page table
    l2addr = cat(bits(l1, 31, 10), bits(mva, 19, 12), BV(0, 2))
    l2 = read32(S.mem, l2addr, ee)
    is_pt = t1 == 1
    is_sec = bit(l1, 1)
    is_super = z3.And(is_sec, bit(l1, 18))
    large = z3.Not(bit(l2, 1))
    level2 = is_pt
    domain = z3.If(is_pt, bits(l1, 8, 5), z3.If(is_super, BV(0, 4), bits(l1, 8, 5)))
    ap = z3.If(is_pt, cat(bits(l2, 9, 9), bits(l2, 5, 4)), cat(bits(l1, 15, 15), bits(l1, 11, 10)))
    texcb = z3.If(is_pt, z3.If(large, cat(bits(l2, 14, 12), bits(l2, 3, 2)), cat(bits(l2, 8, 6), bits(l2, 3, 2))),
                  cat(bits(l1, 14, 12), bits(l1, 3, 2)))
    sbit = z3.If(is_pt, bit(l2, 10), bit(l1, 16))
    nsd = z3.If(is_pt, bit(l1, 3), bit(l1, 19))
    af0 = z3.If(is_pt, z3.Not(bit(l2, 4)), z3.Not(bit(l1, 10)))
    pa32 = z3.If(is_pt, z3.If(large, cat(bits(l2, 31, 16), bits(mva, 15, 0)), cat(bits(l2, 31, 12), bits(mva, 11, 0))),
                 z3.If(is_super, cat(bits(l1, 31, 24), bits(mva, 23, 0)), cat(bits(l1, 31, 20), bits(mva, 19, 0))))
    paext = z3.If(is_super, cat(bits(l1, 8, 5), bits(l1, 23, 20)), BV(0, 8))
    # --- faults in architectural priority order
    f_dis = z3.And(z3.BoolVal(S.have_sec), disabled)
    f_tr1 = t1 == 0
    f_tr2 = z3.And(is_pt, bits(l2, 1, 0) == 0)
    f_af = z3.And(afe, af0, z3.Not(ha))
    hw_af_update = z3.And(afe, af0, ha)  # needs mem.set_bits: unimplemented in the repository
    dacr = S.sys['dacr']
    dfield = bits(z3.LShR(dacr, zx(domain, 32) * 2), 1, 0)
    f_dom = dfield == 0
    client = dfield == 1
    ap_eff = z3.If(afe, ap | 1, ap)
    pab, pun = check_permission_fault(ap_eff, ispriv, iswrite, vmsa=True)
    f_perm = z3.And(client, pab)
    lvl2 = level2
    fs = z3.If(z3.Or(f_dis, f_tr1), BV(FS_TRANS[1], 5),
               z3.If(f_tr2, BV(FS_TRANS[2], 5),
                     z3.If(f_af, z3.If(lvl2, BV(FS_ACCESS[2], 5), BV(FS_ACCESS[1], 5)),
                           z3.If(f_dom, z3.If(lvl2, BV(FS_DOMAIN[2], 5), BV(FS_DOMAIN[1], 5)),
                                 z3.If(lvl2, BV(FS_PERM[2], 5), BV(FS_PERM[1], 5))))))
    fault = z3.Or(f_dis, f_tr1, f_tr2, f_af, f_dom, f_perm)
    # DFSR.domain: valid for domain faults, level-2 translation / access-flag faults, permission faults (no LPAE)
    early = z3.Or(f_dis, f_tr1)
    dom_valid = z3.And(z3.Not(early), z3.Or(f_tr2, z3.And(f_af, lvl2), z3.And(z3.Not(f_af), z3.Or(f_dom, f_perm))))
    attrs = remapped_tex_decode(S, texcb, sbit)
    unpred = z3.And(z3.Not(z3.Or(f_dis, f_tr1, f_tr2, f_af)), z3.Or(dfield == 2, z3.And(client, pun)))
    return {
        'fault': fault, 'fs': fs, 'domain': z3.If(dom_valid, domain, BV(0, 4)), 'mva': mva,
        'pa': cat(paext, pa32), 'ns': z3.If(S.is_secure(), nsd, z3.BoolVal(True)), 'attrs': attrs,
        'unpred': unpred, 'hw_af_update': z3.And(z3.Not(z3.Or(f_dis, f_tr1, f_tr2)), hw_af_update),
        'walked': z3.Not(z3.Or(f_dis, f_tr1, f_tr2, f_af)),
        'l1type': t1, 'l2type': bits(l2, 1, 0), 'use0': use0,
    }


# ---------------------------------------------------------------------------
# Long-descriptor format, stage 1, PL1&0 (DDI 0406C B3.6, B3.19.6 TranslationTableWalkLD, B4.1.104 MAIRn)
# ---------------------------------------------------------------------------

def read64(mem, addr40, big_endian):
    """_Mem[addr,8] as the repository's memory hub sees it: no controller above 2^32 (reads as zero)"""
    a = bits(addr40, 31, 0)
    bs = [P.sel8(mem, z3.simplify(a + i)) for i in range(8)]
    le = cat(*reversed(bs))
    v = z3.If(big_endian, P.big_endian_reverse(le), le)
    return z3.If(bits(addr40, 39, 32) == 0, v, BV(0, 64))


def mair_decode(S, attrindx, hyp=False):
    """MAIRDecode() for PL1&0 (MAIR0/1) or Hyp mode (HMAIR0/1).  `sure`: the encoding is one whose meaning table B4-? fixes without an IMPLEMENTATION
    DEFINED / transient-hint / UNPREDICTABLE clause (Strongly-ordered, Device, Normal with non-transient or
    non-cacheable inner and outer fields)."""
    mair = cat(S.sys['hmair1'], S.sys['hmair0']) if hyp else cat(S.sys['mair1'], S.sys['mair0'])
    field = bits(z3.LShR(mair, zx(attrindx, 64) * 8), 7, 0)
    hi, lo = bits(field, 7, 4), bits(field, 3, 0)
    is_so = z3.And(hi == 0, lo == 0)
    is_dev = z3.And(hi == 0, lo == 4)
    outer_nc = hi == 4
    outer_ok = z3.Or(outer_nc, bit(field, 7))
    inner_nc = lo == 4
    inner_ok = z3.Or(inner_nc, bit(field, 3))
    normal = z3.And(hi != 0, outer_ok, inner_ok)
    return {
        'type': z3.If(is_so, BV(SO, 2), z3.If(is_dev, BV(DEVICE, 2), BV(NORMAL, 2))),
        'normal': normal,
        'sure': z3.Or(is_so, is_dev, normal),
        'outerattrs': z3.If(outer_nc, BV(0, 2), bits(field, 7, 6)),
        'outerhints': z3.If(outer_nc, BV(0, 2), bits(field, 5, 4)),
        'innerattrs': z3.If(inner_nc, BV(0, 2), bits(field, 3, 2)),
        'innerhints': z3.If(inner_nc, BV(0, 2), bits(field, 1, 0)),
    }


def translate_v_ld(S, va, ispriv, iswrite, hyp=False):
    """stage-1 long-descriptor translation (TTBCR.EAE = 1; or, with hyp=True, the Hyp-mode stage 1: HTTBR, HTCR.T0SZ,
    HSCTLR.EE, HMAIRn), no stage 2.
    returns dict: fault, kind ('t'ranslation/'a'ccess flag/'p'ermission as Bools), level (2 bits), pa (40 bits), ns,
    attrs, unpred, first (level the walk starts at), final (level of the block/page descriptor)"""
    pid = bits(S.sys['fcseidr'], 31, 25)
    mva = z3.If(bits(va, 31, 25) == 0, cat(pid, bits(va, 24, 0)), va)
    ia = mva
    if hyp:
        ee = bit(S.sys['hsctlr'], 25)
        t0 = bits(S.sys['htcr'], 2, 0)
        use0 = z3.Or(t0 == 0, z3.LShR(ia, 32 - zx(t0, 32)) == 0)
        use1 = z3.BoolVal(False)
        base_found = use0
        tsz = t0
        ttbr = bits(S.sys['httbr'], 39, 0)
        disabled = z3.BoolVal(False)
    else:
        sctlr = S.sys['sctlr']
        ee = bit(sctlr, 25)
        ttbcr = S.sys['ttbcr']
        t0, t1 = bits(ttbcr, 2, 0), bits(ttbcr, 18, 16)
        epd0, epd1 = bit(ttbcr, 7), bit(ttbcr, 23)
        use0 = z3.Or(t0 == 0, z3.LShR(ia, 32 - zx(t0, 32)) == 0)
        ones1 = z3.LShR(~ia, 32 - zx(t1, 32)) == 0
        # B3.6.4: TTBR1 is used for the top 2^(32-T1SZ) bytes when T1SZ > 0; with T1SZ = 0 only where TTBR0 does
        # not apply
        use1 = z3.Or(z3.And(t1 == 0, z3.Not(use0)), z3.And(t1 != 0, ones1))
        base_found = z3.Or(use0, use1)
        tsz = z3.If(use1, t1, t0)
        ttbr = z3.If(use1, bits(S.sys['ttbr1_64'], 39, 0), bits(S.sys['ttbr0_64'], 39, 0))
        disabled = z3.If(use1, epd1, epd0)
    start2 = bits(tsz, 2, 1) != 0
    tz = zx(tsz, 40)
    balb = z3.If(start2, BV(14, 40) - tz, BV(5, 40) - tz)
    base = z3.LShR(ttbr, balb) << balb
    unpred_ttbr = z3.LShR(ttbr & ((BV(1, 40) << balb) - 1), 3) != 0
    iam = ia & z3.LShR(BV(0xFFFFFFFF, 32), zx(tsz, 32))  # IA<31-TxSZ:0>
    idx_first = z3.If(start2, z3.LShR(iam, 21), z3.LShR(iam, 30))
    # level 1 (only when the walk starts there)
    a1 = base | (zx(idx_first, 40) << 3)
    d1 = read64(S.mem, a1, ee)
    l1_visited = z3.Not(start2)
    l1_inv = z3.And(l1_visited, z3.Not(bit(d1, 0)))
    l1_blk = z3.And(l1_visited, bit(d1, 0), z3.Not(bit(d1, 1)))
    l1_tab = z3.And(l1_visited, bit(d1, 0), bit(d1, 1))
    # level 2
    base2 = z3.If(start2, base, cat(bits(d1, 39, 12), BV(0, 12)))
    idx2 = z3.If(start2, idx_first, zx(bits(ia, 29, 21), 32))
    a2 = base2 | (zx(idx2, 40) << 3)
    d2 = read64(S.mem, a2, ee)
    l2_visited = z3.Or(start2, l1_tab)
    l2_inv = z3.And(l2_visited, z3.Not(bit(d2, 0)))
    l2_blk = z3.And(l2_visited, bit(d2, 0), z3.Not(bit(d2, 1)))
    l2_tab = z3.And(l2_visited, bit(d2, 0), bit(d2, 1))
    # level 3
    a3 = cat(bits(d2, 39, 12), bits(ia, 20, 12), BV(0, 3))
    d3 = read64(S.mem, a3, ee)
    l3_inv = z3.And(l2_tab, z3.Not(z3.And(bit(d3, 0), bit(d3, 1))))
    l3_page = z3.And(l2_tab, bit(d3, 0), bit(d3, 1))
    early = z3.Or(z3.Not(base_found), disabled)
    f_tr = z3.Or(early, l1_inv, l2_inv, l3_inv)
    tr_level = z3.If(z3.Or(early, l1_inv), BV(1, 2), z3.If(l2_inv, BV(2, 2), BV(3, 2)))
    final = z3.If(l1_blk, BV(1, 2), z3.If(l2_blk, BV(2, 2), BV(3, 2)))
    D = z3.If(l1_blk, d1, z3.If(l2_blk, d2, d3))
    pa = z3.If(l1_blk, cat(bits(d1, 39, 30), bits(ia, 29, 0)),
               z3.If(l2_blk, cat(bits(d2, 39, 21), bits(ia, 20, 0)), cat(bits(d3, 39, 12), bits(ia, 11, 0))))
    # hierarchical attributes of the table descriptors passed through
    t1d, t2d = l1_tab, l2_tab

    def acc(i):
        return z3.Or(z3.And(t1d, bit(d1, i)), z3.And(t2d, bit(d2, i)))
    ns_table, ap_ro, ap_nouser = acc(63), acc(62), acc(61)
    lookup_secure = z3.BoolVal(False) if hyp else z3.And(S.is_secure(), z3.Not(ns_table))
    af = bit(D, 10)
    ap2 = z3.Or(bit(D, 7), ap_ro)
    ap1 = z3.And(bit(D, 6), z3.Not(ap_nouser))
    ap = cat(z3.If(ap2, BV(1, 1), BV(0, 1)), z3.If(ap1, BV(1, 1), BV(0, 1)), BV(1, 1))
    ns_out = z3.Or(bit(D, 5), z3.Not(lookup_secure))
    f_af = z3.And(z3.Not(f_tr), z3.Not(af))
    pab, pun = check_permission_fault(ap, ispriv, iswrite, vmsa=True)
    f_perm = z3.And(z3.Not(f_tr), af, pab)
    m = mair_decode(S, bits(D, 4, 2), hyp)
    # Hyp mode: AP[1] / APTable<0> / PXN / PXNTable / nG settings the architecture makes UNPREDICTABLE (B3.19.6, end)
    unpred_hyp = z3.And(z3.BoolVal(hyp), z3.Not(f_tr), z3.Or(z3.Not(bit(D, 6)), ap_nouser, bit(D, 53), acc(59), bit(D, 11)))
    sh = bits(D, 9, 8)
    attrs = dict(m)
    attrs['shareable'] = z3.If(m['normal'], bit(D, 9), z3.BoolVal(True))
    attrs['outershareable'] = z3.If(m['normal'], sh == 2, z3.BoolVal(True))
    return {
        'fault': z3.Or(f_tr, f_af, f_perm), 'f_tr': f_tr, 'f_af': f_af, 'f_perm': f_perm,
        'level': z3.If(f_tr, tr_level, final), 'mva': mva, 'pa': pa, 'ns': ns_out, 'attrs': attrs,
        'unpred': z3.Or(z3.And(base_found, unpred_ttbr), unpred_hyp), 'start2': start2, 'final': final, 'use1': use1,
        'visited': (l1_visited, l2_visited, l2_tab),
        'tables': ((l1_tab, d1), (l2_tab, d2)), 'attrindx': bits(D, 4, 2),
    }
