"""Models of the builtin / C boundary, injected by rebinding names in armulator modules' globals.
Every stub here is part of the claim (listed in evidence 'stubs')."""
import builtins
import sys

import z3

from . import core
from spec import pseudo as P
from .core import SymInt, SymBool, sym_int, to_bv, U, mk

STUBS_DOC = [
    "print -> recorded as a path event (no output)",
    "int -> identity on symbolic ints, 0/1 on symbolic bools, truncation on the exact rational produced by '/'",
    "bin(x).count('1') -> pop-count term",
    "ArmV6.mem -> SymMem: z3 Array(BV32->BV8), little-endian multi-byte accesses at physicaladdress mod 2^32",
]


def rec_print(*a, **k):
    core.CTX.event('print', ' '.join(str(x) for x in a))


class _SymBin:
    def __init__(self, x):
        self.x = x

    def count(self, what):
        assert what == '1'
        x = self.x
        if x.lo < 0:
            raise core.EngineLimit('bin() of possibly negative value')
        n = x.hi.bit_length()
        w = n.bit_length() + 1
        r = z3.BitVecVal(0, w)
        for i in range(n):
            r = r + z3.ZeroExt(w - 1, z3.Extract(i, i, x.e))
        return mk(r, 0, n)


def sym_bin(x):
    if type(x) is SymInt:
        return _SymBin(x)
    if type(x) is SymBool:
        return _SymBin(x._int())
    return builtins.bin(x)


def sym_abs(x):
    return abs(x)


_installed = {}


def armulator_modules():
    return [m for n, m in list(sys.modules.items()) if n.startswith('armulator') and m is not None]


def install():
    """rebind print/int/bin in every loaded armulator module"""
    for m in armulator_modules():
        if m.__name__ in _installed:
            continue
        _installed[m.__name__] = True
        m.__dict__['print'] = rec_print
        m.__dict__['int'] = sym_int
        m.__dict__['bin'] = sym_bin


def uninstall():
    for m in armulator_modules():
        if _installed.pop(m.__name__, None):
            for k in ('print', 'int', 'bin'):
                m.__dict__.pop(k, None)


class SymMem:
    """Stand-in for MemoryControllerHub: flat little-endian byte array over 32-bit physical addresses."""

    def __init__(self, array=None, name='mem0'):
        self.array = array if array is not None else z3.Array(name, z3.BitVecSort(32), z3.BitVecSort(8))
        self.log = []  # (kind, addr_term, size)
        self.memories = []

    def _addr(self, desc):
        """32-bit address term, or None when the physical address lies outside [0, 2^32) (no controller there:
        the real hub reads 0 and ignores writes)"""
        pa = desc.paddress.physicaladdress
        ok = z3.simplify(core.in_range(pa, 32))
        if not z3.is_true(ok):
            if z3.is_false(ok) or not core.CTX.branch(ok):
                return None
        return to_bv(pa, 32)

    def __getitem__(self, key):
        desc, size = key
        assert size == 1 or size == 2 or size == 4 or size == 8
        a = self._addr(desc)
        if a is None:
            return 0
        self.log.append(('r', a, size))
        bs = [P.sel8(self.array, z3.simplify(a + i)) for i in range(size)]
        e = bs[0] if size == 1 else z3.Concat(*reversed(bs))
        return U(e, 8 * size)

    def __setitem__(self, key, value):
        desc, size = key
        assert size == 1 or size == 2 or size == 4 or size == 8
        a = self._addr(desc)
        if a is None:
            return
        # the real hub uses struct.pack: out-of-range values raise struct.error
        ok = z3.simplify(core.in_range(value, 8 * size))
        if not z3.is_true(ok):
            if z3.is_false(ok) or not core.CTX.branch(ok):
                import struct
                raise core.modelled(struct.error('argument out of range'))
        v = to_bv(value, 8 * size)
        self.log.append(('w', a, size))
        arr = self.array
        for i in range(size):
            arr = z3.Store(arr, a + i, z3.Extract(8 * i + 7, 8 * i, v))
        self.array = arr

    def set_bits(self, memaddrdesc, size, ind, amount, bits):
        raise NotImplementedError()
