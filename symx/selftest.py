"""Engine self-test: random integer expressions evaluated symbolically and then under random
concrete substitutions must agree with Python's own integer arithmetic."""
import random
import sys

import z3

from . import core
from .core import SymInt, SymBool, sym_int


def rand_expr(rng, leaves, depth):
    if depth == 0 or rng.random() < 0.2:
        return rng.choice(leaves)
    k = rng.choice(['add', 'sub', 'mul', 'and', 'or', 'xor', 'shl', 'shr', 'modc', 'divc', 'neg', 'inv', 'cmp',
                    'abs', 'pow2mod', 'bitlen', 'div', 'mod'])
    a = rand_expr(rng, leaves, depth - 1)
    b = rand_expr(rng, leaves, depth - 1)
    return (k, a, b, rng.randrange(1, 40), rng.choice(['lt', 'le', 'eq', 'ne', 'gt', 'ge']))


def ev(t, env):
    if isinstance(t, str):
        return env[t]
    if isinstance(t, int):
        return t
    k, a, b, c, cm = t
    x = ev(a, env)
    if k == 'neg':
        return -x
    if k == 'inv':
        return ~x
    if k == 'abs':
        return abs(x)
    if k == 'modc':
        return x % c
    if k == 'divc':
        return x // c
    if k == 'shl':
        return x << (c % 9)
    if k == 'shr':
        return x >> (c % 9)
    if k == 'bitlen':
        y = x & 0xFFFF
        return y.bit_length()
    y = ev(b, env)
    if k == 'add':
        return x + y
    if k == 'sub':
        return x - y
    if k == 'mul':
        return x * y
    if k == 'and':
        return x & y
    if k == 'or':
        return x | y
    if k == 'xor':
        return x ^ y
    if k == 'pow2mod':
        return x % (2 ** (y & 7))
    if k == 'div':
        d = ((y & 0x7F) + 1) * (1 if c & 1 else -1)
        return x // d
    if k == 'mod':
        d = ((y & 0x7F) + 1) * (1 if c & 1 else -1)
        return x % d
    if k == 'cmp':
        r = {'lt': x < y, 'le': x <= y, 'eq': x == y, 'ne': x != y, 'gt': x > y, 'ge': x >= y}[cm]
        return sym_int(r) if not isinstance(r, bool) else int(r)
    raise AssertionError(k)


def run(n_exprs=300, n_models=6, seed=1):
    rng = random.Random(seed)
    bad = 0
    done = 0
    for i in range(n_exprs):
        wx, wy = rng.choice([1, 4, 8, 16, 32]), rng.choice([3, 8, 32])
        vx, vy = z3.BitVec('x', wx), z3.BitVec('y', wy)
        env = {'x': SymInt(z3.ZeroExt(1, vx), 0, (1 << wx) - 1), 'y': SymInt(z3.ZeroExt(1, vy), 0, (1 << wy) - 1)}
        t = rand_expr(rng, ['x', 'y', 3, 255, -7, 0x80000000], 4)
        core.new_ctx()
        core.CTX.start()
        try:
            # division by a possibly-zero symbolic value forks; keep only non-forking expressions
            r = ev(t, env)
        except (core.EngineLimit, ZeroDivisionError, ValueError):
            continue
        if core.CTX.stack:
            continue
        done += 1
        for _ in range(n_models):
            x0, y0 = rng.randrange(1 << wx), rng.randrange(1 << wy)
            if rng.random() < 0.3:
                x0 = rng.choice([0, (1 << wx) - 1, 1 << (wx - 1)])
            try:
                want = ev(t, {'x': x0, 'y': y0})
            except ZeroDivisionError:
                continue
            if type(r) is SymInt:
                g = z3.simplify(z3.substitute(r.e, (vx, z3.BitVecVal(x0, wx)), (vy, z3.BitVecVal(y0, wy))))
                got = g.as_signed_long()
                okr = r.lo <= want <= r.hi
            elif type(r) is SymBool:
                g = z3.simplify(z3.substitute(r.e, (vx, z3.BitVecVal(x0, wx)), (vy, z3.BitVecVal(y0, wy))))
                got = int(z3.is_true(g))
                okr = True
            else:
                got = int(r)
                okr = True
            if got != want or not okr:
                bad += 1
                print('SELFTEST MISMATCH', t, x0, y0, 'got', got, 'want', want, 'interval', getattr(r, 'lo', None),
                      getattr(r, 'hi', None))
                break
    return done, bad


if __name__ == '__main__':
    n = int(sys.argv[1]) if len(sys.argv) > 1 else 300
    d, b = run(n)
    print('selftest: %d expressions, %d mismatches' % (d, b))
    sys.exit(1 if b else 0)
