"""symx core: proxy integers over z3 bit-vectors + DFS-by-re-execution explorer.

A SymInt models a Python ``int`` exactly: it carries a z3 bit-vector term ``e`` read as a
two's-complement number plus a conservative interval [lo, hi]; every operation is carried
out at a width that holds the exact mathematical result, so there is no wrap-around inside
the engine.  Branching on a symbolic condition asks the solver which alternatives are
feasible under the current path condition; the harness function is re-executed once per
path (depth-first), solver frames being kept in sync with the decision stack.
"""
import builtins
import os
import sys
import time

import z3

MAX_WIDTH = 8192
MAX_ENUM = 64


class EngineLimit(Exception):
    """The engine cannot model this operation; the path is inconclusive."""


class PathAbort(BaseException):
    """Current path is infeasible / dropped (not an Exception on purpose)."""


class Inconclusive(BaseException):
    """Raised out of explore() internals when a budget is hit."""


def modelled(ex):
    """mark an exception as one the real interpreter would raise here (not an engine failure)"""
    ex._symx_modelled = True
    return ex


def bits_for(lo, hi):
    """smallest signed width holding [lo, hi]"""
    w = max(lo.bit_length() if lo >= 0 else (~lo).bit_length(),
            hi.bit_length() if hi >= 0 else (~hi).bit_length()) + 1
    return w


# VERIF_CROSS=N: every N-th obligation that z3 discharged (unsat) is also given to the cvc5 binary; cvc5 answering
# `sat` makes the obligation inconclusive (the two solvers disagree), `unsat` is counted as an agreement
CROSS_EVERY = int(os.environ.get('VERIF_CROSS', '0') or 0)
CROSS_BIN = os.environ.get('VERIF_CROSS_BIN', '/usr/bin/cvc5')
CROSS_TLIMIT_MS = int(os.environ.get('VERIF_CROSS_TLIMIT_MS', '20000'))


def _lower_for_smtlib(terms):
    """rewrite z3-only operators (rotate by a term) into SMT-LIB 2 core bit-vector operators"""
    memo = {}
    kinds = (z3.Z3_OP_EXT_ROTATE_LEFT, z3.Z3_OP_EXT_ROTATE_RIGHT)

    def build(t, ch):
        k = t.decl().kind()
        if k in kinds:
            a, b = ch
            w = a.size()
            n = z3.URem(b, z3.BitVecVal(w, w))
            inv = z3.URem(z3.BitVecVal(w, w) - n, z3.BitVecVal(w, w))
            if k == z3.Z3_OP_EXT_ROTATE_RIGHT:
                return z3.LShR(a, n) | (a << inv)
            return (a << n) | z3.LShR(a, inv)
        if all(c0.eq(c1) for c0, c1 in zip(t.children(), ch)):
            return t
        return t.decl()(*ch)
    out = []
    for root in terms:
        stack = [(root, False)]
        while stack:
            t, done = stack.pop()
            i = t.get_id()
            if i in memo:
                continue
            if not z3.is_app(t) or t.num_args() == 0:
                memo[i] = t
                continue
            if done:
                memo[i] = build(t, [memo[c.get_id()] for c in t.children()])
            else:
                stack.append((t, True))
                for c in t.children():
                    if c.get_id() not in memo:
                        stack.append((c, False))
        out.append(memo[root.get_id()])
    return out


def cross_check(assertions):
    import subprocess
    import tempfile
    s = z3.Solver()
    s.add(_lower_for_smtlib(assertions))
    text = '(set-logic QF_ABV)\n' + s.to_smt2()
    fd, path = tempfile.mkstemp(suffix='.smt2', prefix='symx-cross-')
    try:
        with os.fdopen(fd, 'w') as f:
            f.write(text)
        try:
            p = subprocess.run([CROSS_BIN, '--tlimit=%d' % CROSS_TLIMIT_MS, path], capture_output=True, text=True,
                               timeout=CROSS_TLIMIT_MS / 1000.0 + 10)
        except (subprocess.TimeoutExpired, OSError):
            return 'noanswer'
        out = p.stdout.strip().splitlines()
        if '(error' in p.stdout or '(error' in p.stderr:
            if os.environ.get('VERIF_CROSS_DEBUG'):
                import shutil
                shutil.copy(path, '/tmp/cross-error.smt2')
                sys_err = (p.stdout + p.stderr)[:300]
                print('cross-check error: ' + sys_err)
            return 'error'
        if out and out[0] == 'unsat':
            return 'agree'
        if out and out[0] == 'sat':
            return 'disagree'
        return 'noanswer'
    finally:
        try:
            os.remove(path)
        except OSError:
            pass


class Ctx:
    def __init__(self, timeout_ms=60000):
        self.cross = {}
        self.solver = z3.SolverFor('QF_ABV')
        self.solver.set('timeout', timeout_ms)
        self.timeout_ms = timeout_ms
        self.stack = []  # entries: dict(kind='b', val=bool, alt=bool) | dict(kind='e', expr, tried=[..], cur)
        self.pos = 0
        self.nframes = 0
        self.nsolve = 0
        self.tsolve = 0.0
        self.nunknown = 0
        self.events = []
        self.deadline = None
        self.fresh = 0
        self.pathvars = {}

    # -- solver helpers -------------------------------------------------
    def check(self, *extra):
        self.nsolve += 1
        t = time.time()
        s = self.solver
        s.push()
        for x in extra:
            s.add(x)
        r = s.check()
        s.pop()
        self.tsolve += time.time() - t
        if r == z3.unknown:
            self.nunknown += 1
        return r

    def model(self, *extra, quick=False):
        return self._model(extra, quick, speed_factor())

    def _model(self, extra, quick, K):
        """decide pc AND extra.  Two engines: a FRESH solver (z3's one-shot preprocessing + bit-blasting pipeline,
        10-500x faster than the incremental core on large arithmetic obligations) and the incremental solver
        (much faster on the array-heavy obligations of the translation checks).  `self.prefer` ('fresh' | 'incr')
        selects which goes first; quick=True gives up early (the caller then splits the obligation)."""
        self.nsolve += 1
        t = time.time()

        def strengthen(assertions):
            """z3's preprocessing does not propagate Not(x == c) for a 1-bit x (what a taken `if bit_at(..)` commits):
            add the equivalent positive equality"""
            out = []
            for a in assertions:
                if z3.is_not(a):
                    e = a.arg(0)
                    if z3.is_eq(e):
                        l, r_ = e.arg(0), e.arg(1)
                        if z3.is_bv(l) and l.size() == 1:
                            if z3.is_bv_value(r_):
                                out.append(l == z3.BitVecVal(1 - r_.as_long(), 1))
                            elif z3.is_bv_value(l):
                                out.append(r_ == z3.BitVecVal(1 - l.as_long(), 1))
            return out

        def fresh(timeout):
            """restart ladder: the run-time distribution of these queries is heavy-tailed in the random seed"""
            asserts = list(self.solver.assertions())
            extra_eq = strengthen(asserts)
            ladder = [(min(timeout, int(2000 * K)), 0), (min(timeout, int(6000 * K)), 1),
                      (min(timeout, int(15000 * K)), 2), (timeout, 3)]
            done = 0
            r_ = z3.unknown
            for tmo, seed in ladder:
                if tmo <= done:
                    continue
                s = z3.SolverFor('QF_ABV')
                s.set('timeout', tmo)
                s.set('random_seed', seed)
                s.add(asserts)
                s.add(extra_eq)
                for x in extra:
                    s.add(x)
                r_ = s.check()
                if r_ != z3.unknown:
                    return r_, (s.model() if r_ == z3.sat else None)
                done = tmo
            return r_, None

        def abstracted(timeout):
            """generalise the query: every register-read multiplexer (a 34-way if-tree over the bank table, built by
            spec.state.bank_get on both the code side -- through the summaries -- and the oracle side) is replaced by a
            fresh constant.  The original query is a substitution instance of the generalised one, so unsat carries
            over; sat / unknown says nothing and the caller goes on with the original query."""
            try:
                from spec.state import MUX
            except Exception:
                return z3.unknown, None
            if not MUX:
                return z3.unknown, None
            fs = list(self.solver.assertions()) + list(extra)
            pairs = [(t, z3.BitVec('mux!%d' % i, t.size())) for i, t in MUX.items()]
            fs2 = [z3.substitute(f, *pairs) for f in fs]
            if all(a.eq(b) for a, b in zip(fs, fs2)):
                return z3.unknown, None
            s = z3.SolverFor('QF_ABV')
            s.set('timeout', timeout)
            s.add(fs2)
            r_ = s.check()
            self.nabs = getattr(self, 'nabs', 0) + (1 if r_ == z3.unsat else 0)
            return (r_, None) if r_ == z3.unsat else (z3.unknown, None)

        def bitblast(timeout):
            """plain simplify + bit-blast + SAT: after naive bit-blasting structurally different but equal mux /
            multiplier operand terms hash-cons to the same literals (decisive for the multiply family); not
            applicable to obligations with array terms"""
            try:
                sb = z3.Then('simplify', 'bit-blast', 'sat').solver()
                sb.set('timeout', timeout)
                sb.add(self.solver.assertions())
                for x in extra:
                    sb.add(x)
                r_ = sb.check()
                return r_, (sb.model() if r_ == z3.sat else None)
            except z3.Z3Exception:
                return z3.unknown, None

        def incr():
            s2 = self.solver
            s2.push()
            for x in extra:
                s2.add(x)
            r_ = s2.check()
            m_ = s2.model() if r_ == z3.sat else None
            s2.pop()
            return r_, m_
        if getattr(self, 'prefer', 'fresh') == 'incr':
            r, m = incr()
            if r == z3.unknown and not quick:
                r, m = fresh(int(self.timeout_ms * K))
        else:
            TO = int(self.timeout_ms * K)
            r, m = fresh(min(int(2500 * K), TO) if quick else min(int(6000 * K), TO))
            if r == z3.unknown and ABSTRACT_MUX:
                r, m = abstracted(min(int((4000 if quick else 20000) * K), TO))
            if r == z3.unknown:
                r, m = bitblast(min(int((4000 if quick else 30000) * K), TO))
            if r == z3.unknown and not quick:
                r, m = fresh(TO)
            if r == z3.unknown and not quick:
                r, m = incr()
        self.tsolve += time.time() - t
        if r == z3.unsat and CROSS_EVERY and self.nsolve % CROSS_EVERY == 0:
            # second opinion from an independent solver (cvc5) on a sample of the discharged obligations
            v = cross_check(list(self.solver.assertions()) + list(extra))
            self.cross[v] = self.cross.get(v, 0) + 1
            if v == 'disagree':
                r, m = z3.unknown, None
        if r == z3.unknown and not quick:
            self.nunknown += 1
        return r, m

    def pc(self):
        return list(self.solver.assertions())

    def _commit(self, c):
        self.solver.push()
        self.solver.add(c)
        self.nframes += 1

    # -- decisions ------------------------------------------------------
    def start(self):
        self.pos = 0
        self.events = []
        self.fresh = 0
        self.pathvars = {}

    def branch(self, cond):
        i = self.pos
        self.pos += 1
        st = self.stack
        if i < len(st):
            ent = st[i]
            d = ent['val']
            if i >= self.nframes:
                self._commit(cond if d else z3.Not(cond))
            return d
        if self.deadline is not None and time.time() > self.deadline:
            raise Inconclusive('deadline')
        rt = self.check(cond)
        if rt == z3.unsat:
            st.append({'kind': 'b', 'val': False, 'alt': False})
            self._commit(z3.Not(cond))
            return False
        rf = self.check(z3.Not(cond))
        if rf == z3.unsat:
            st.append({'kind': 'b', 'val': True, 'alt': False})
            self._commit(cond)
            return True
        st.append({'kind': 'b', 'val': True, 'alt': True})
        self._commit(cond)
        return True

    def assume(self, cond):
        """cond: z3 Bool. Drop the path if infeasible."""
        i = self.pos
        self.pos += 1
        st = self.stack
        if i < len(st):
            if i >= self.nframes:
                self._commit(cond)
            return
        r = self.check(cond)
        if r == z3.unsat:
            self.pos -= 1
            raise PathAbort()
        st.append({'kind': 'b', 'val': True, 'alt': False})
        self._commit(cond)

    def choose(self, e):
        """all-SAT concretisation of bit-vector term e; returns a python int (signed reading)."""
        i = self.pos
        self.pos += 1
        st = self.stack
        if i < len(st):
            ent = st[i]
            v = ent['cur']
            if i >= self.nframes:
                self._commit(e == z3.BitVecVal(v, e.size()))
            return v
        if self.deadline is not None and time.time() > self.deadline:
            raise Inconclusive('deadline')
        r, m = self.model()
        if r != z3.sat:
            if r == z3.unknown:
                raise Inconclusive('unknown in choose')
            self.pos -= 1
            raise PathAbort()
        v = m.eval(e, model_completion=True).as_signed_long()
        ent = {'kind': 'e', 'expr': e, 'tried': [v], 'cur': v}
        st.append(ent)
        self._commit(e == z3.BitVecVal(v, e.size()))
        return v

    def advance(self):
        st = self.stack
        del st[self.pos:]
        while st:
            # pop solver frames so that exactly len(st)-1 decisions are asserted
            keep = len(st) - 1
            while self.nframes > keep:
                self.solver.pop()
                self.nframes -= 1
            ent = st[-1]
            if ent['kind'] == 'b':
                if ent['alt']:
                    ent['val'] = False
                    ent['alt'] = False
                    return True
            else:
                e = ent['expr']
                if len(ent['tried']) > MAX_ENUM:
                    raise EngineLimit('enumeration wider than %d values' % MAX_ENUM)
                r, m = self.model(*[e != z3.BitVecVal(v, e.size()) for v in ent['tried']])
                if r == z3.unknown:
                    raise Inconclusive('unknown in advance')
                if r == z3.sat:
                    v = m.eval(e, model_completion=True).as_signed_long()
                    ent['tried'].append(v)
                    ent['cur'] = v
                    return True
            st.pop()
        while self.nframes > 0:
            self.solver.pop()
            self.nframes -= 1
        return False

    def reset(self):
        while self.nframes > 0:
            self.solver.pop()
            self.nframes -= 1
        self.stack = []
        self.pos = 0

    def event(self, *a):
        self.events.append(a)


CTX = Ctx()


def new_ctx(timeout_ms=60000):
    global CTX
    CTX = Ctx(timeout_ms)
    return CTX


def ctx():
    return CTX


class Stats:
    def __init__(self):
        self.paths = 0
        self.aborted = 0
        self.queries = 0
        self.solver_s = 0.0
        self.incomplete = None
        self.unknown = 0
        self.cross = {}

    def as_dict(self):
        return dict(paths=self.paths, aborted=self.aborted, queries=self.queries,
                    solver_s=round(self.solver_s, 3), incomplete=self.incomplete, unknown=self.unknown,
                    cross=dict(self.cross))


_SPEED = None


def speed_factor():
    """Solver budgets are wall-clock; on a slower (or busier) machine a query that needs 2 s here needs k x 2 s there,
    misses the same budget, and is retried on the next rung of the ladder or split -- a super-linear slow-down.  A
    fixed small bit-vector query (9-bit division identity, ~0.3 s on the development machine) is timed once per
    process and every budget is scaled by the ratio (clamped to [1, 5]); VERIF_SPEED overrides."""
    global _SPEED
    if _SPEED is None:
        v = os.environ.get('VERIF_SPEED')
        if v:
            _SPEED = max(0.5, float(v))
        else:
            best = None
            for _ in range(2):
                t = time.time()
                x, y = z3.BitVecs('cal!x cal!y', 9)
                s = z3.SolverFor('QF_BV')
                s.set('timeout', 20000)
                s.set('random_seed', 0)
                s.add(y != 0, z3.UDiv(x, y) * y + z3.URem(x, y) != x)
                s.check()
                d = time.time() - t
                best = d if best is None else min(best, d)
            _SPEED = min(5.0, max(1.0, best / 0.30))
    return _SPEED


class Hang(Exception):
    """a single path ran longer than PATH_SECONDS of wall time (non-terminating loop in the code under test)"""


PATH_SECONDS = int(os.environ.get('VERIF_PATH_SECONDS', '200') or 200)
ABSTRACT_MUX = os.environ.get('VERIF_ABSTRACT_MUX', '0') == '1'  # measured: no gain on the long-pole rows; off


def _on_alarm(signum, frame):
    raise Hang('path did not finish within %d s' % PATH_SECONDS)


def _watchdog(seconds):
    try:
        import signal
        if seconds:
            signal.signal(signal.SIGALRM, _on_alarm)
        signal.alarm(seconds)
    except (ValueError, AttributeError):  # not the main thread / no SIGALRM
        pass


def explore(fn, on_path=None, max_paths=10 ** 9, max_seconds=None):
    """Run fn() once per feasible path. fn's return value (or a raised Exception, passed as
    the value) is given to on_path(value, ctx)."""
    c = CTX
    c.reset()
    q0, t0 = c.nsolve, c.tsolve
    c.cross = {}
    st = Stats()
    c.deadline = (time.time() + max_seconds * speed_factor()) if max_seconds else None
    try:
        while True:
            c.start()
            try:
                try:
                    _watchdog(int(PATH_SECONDS * speed_factor()))
                    try:
                        mx = sys.modules.get('spec.state')
                        if mx is not None and hasattr(mx, 'MUX'):
                            mx.MUX.clear()  # the registry of register-read multiplexers is per path
                            del mx.WRITES_IMPL[:]
                            del mx.WRITES_OR[:]
                        r = fn()
                    finally:
                        _watchdog(0)
                except Hang as ex:  # the code under test did not return: reported as an outcome of the path
                    r = ex
                except EngineLimit as ex:
                    st.incomplete = 'EngineLimit: %s' % ex
                    raise Inconclusive(str(ex))
                except Exception as ex:  # the code under test raised: that is an outcome
                    r = ex
                if on_path:
                    on_path(r, c)
                st.paths += 1
                if isinstance(r, Hang):
                    # one non-terminating path is reported; its siblings would each cost PATH_SECONDS again
                    st.incomplete = st.incomplete or 'stopped after a path that did not terminate'
                    break
            except PathAbort:
                st.aborted += 1
            if st.paths + st.aborted >= max_paths:
                st.incomplete = st.incomplete or 'max_paths'
                break
            try:
                more = c.advance()
            except EngineLimit as ex:
                st.incomplete = st.incomplete or ('EngineLimit: %s' % ex)
                break
            if not more:
                break
    except Inconclusive as ex:
        st.incomplete = st.incomplete or ('inconclusive: %s' % ex)
    finally:
        c.deadline = None
        c.reset()
    st.queries = c.nsolve - q0
    st.solver_s = c.tsolve - t0
    st.unknown = c.nunknown
    st.cross = dict(c.cross)
    return st


# ---------------------------------------------------------------------------
# values
# ---------------------------------------------------------------------------

def ext(e, w):
    sz = e.size()
    if sz == w:
        return e
    if sz > w:
        return z3.Extract(w - 1, 0, e)
    return z3.SignExt(w - sz, e)


def mk(e, lo, hi):
    """normalise: e (>= needed width) represents a signed int known to lie in [lo, hi]."""
    if lo == hi:
        return lo
    w = bits_for(lo, hi)
    sz = e.size()
    if sz > w:
        e = z3.Extract(w - 1, 0, e)
    elif sz < w:
        e = z3.SignExt(w - sz, e)
    e = z3.simplify(e)
    if z3.is_bv_value(e):
        return e.as_signed_long()
    return SymInt(e, lo, hi)


def U(e, w=None):
    """wrap an unsigned z3 bit-vector term as SymInt/int"""
    if w is None:
        w = e.size()
    return mk(z3.ZeroExt(1, e), 0, (1 << w) - 1)


def S(e, w=None):
    """wrap a signed z3 bit-vector term"""
    if w is None:
        w = e.size()
    return mk(e, -(1 << (w - 1)), (1 << (w - 1)) - 1)


class SymBool:
    __slots__ = ('e',)

    def __init__(self, e):
        self.e = e

    @property
    def __class__(self):
        return bool

    def __bool__(self):
        e = z3.simplify(self.e)
        if z3.is_true(e):
            return True
        if z3.is_false(e):
            return False
        return CTX.branch(e)

    def _int(self):
        return SymInt(z3.If(self.e, z3.BitVecVal(1, 2), z3.BitVecVal(0, 2)), 0, 1)

    def __eq__(self, o):
        if type(o) is SymBool:
            return mkbool(self.e == o.e)
        if type(o) is bool:
            return self if o else mkbool(z3.Not(self.e))
        if type(o) is int or type(o) is SymInt:
            return self._int() == o
        return False

    def __ne__(self, o):
        r = self.__eq__(o)
        if type(r) is bool:
            return not r
        return mkbool(z3.Not(r.e))

    def __and__(self, o):
        if type(o) is SymBool or type(o) is bool:
            return mkbool(z3.And(self.e, tobool(o)))
        return self._int() & o

    __rand__ = __and__

    def __or__(self, o):
        if type(o) is SymBool or type(o) is bool:
            return mkbool(z3.Or(self.e, tobool(o)))
        return self._int() | o

    __ror__ = __or__

    def __xor__(self, o):
        if type(o) is SymBool or type(o) is bool:
            return mkbool(z3.Xor(self.e, tobool(o)))
        return self._int() ^ o

    __rxor__ = __xor__

    def __index__(self):
        return 1 if bool(self) else 0

    __int__ = __index__

    def __hash__(self):
        return hash(bool(self))

    def __repr__(self):
        return 'SymBool(%s)' % z3.simplify(self.e)


def _deleg(name):
    def f(self, *a):
        return getattr(self._int(), name)(*a)
    f.__name__ = name
    return f


for _n in ('add', 'radd', 'sub', 'rsub', 'mul', 'rmul', 'lshift', 'rlshift', 'rshift', 'rrshift', 'mod', 'rmod',
           'floordiv', 'rfloordiv', 'neg', 'invert', 'lt', 'le', 'gt', 'ge', 'pow', 'rpow', 'truediv', 'rtruediv',
           'abs', 'pos'):
    setattr(SymBool, '__%s__' % _n, _deleg('__%s__' % _n))


def mkbool(e):
    e = z3.simplify(e)
    if z3.is_true(e):
        return True
    if z3.is_false(e):
        return False
    return SymBool(e)


def tobool(o):
    """python value -> z3 Bool (truthiness)"""
    t = type(o)
    if t is SymBool:
        return o.e
    if t is SymInt:
        return o.e != 0
    return z3.BoolVal(bool(o))


class SymInt:
    __slots__ = ('e', 'lo', 'hi', 'p2')

    def __init__(self, e, lo, hi):
        self.e = e
        self.lo = lo
        self.hi = hi
        self.p2 = False

    @property
    def __class__(self):
        return int

    @staticmethod
    def var(name, bits):
        v = z3.BitVec(name, bits)
        return SymInt(z3.ZeroExt(1, v), 0, (1 << bits) - 1)

    def _coerce(self, o):
        t = type(o)
        if t is SymInt:
            return o.e, o.lo, o.hi
        if t is SymBool:
            return z3.If(o.e, z3.BitVecVal(1, 2), z3.BitVecVal(0, 2)), 0, 1
        if t is bool:
            o = builtins.int(o)
            return None, o, o
        if t is int:
            return None, o, o
        return NotImplemented

    def _bin(self, o, kind, swap=False):
        c = self._coerce(o)
        if c is NotImplemented:
            return NotImplemented
        a = (self.e, self.lo, self.hi)
        b = c
        if swap:
            a, b = b, a
        elif kind == 'mod' and type(o) is SymInt and o.p2:
            return self & (o - 1)
        return arith(kind, a, b)

    def __add__(self, o): return self._bin(o, 'add')
    def __radd__(self, o): return self._bin(o, 'add', True)
    def __sub__(self, o): return self._bin(o, 'sub')
    def __rsub__(self, o): return self._bin(o, 'sub', True)
    def __mul__(self, o): return self._bin(o, 'mul')
    def __rmul__(self, o): return self._bin(o, 'mul', True)
    def __and__(self, o): return self._bin(o, 'and')
    def __rand__(self, o): return self._bin(o, 'and', True)
    def __or__(self, o): return self._bin(o, 'or')
    def __ror__(self, o): return self._bin(o, 'or', True)
    def __xor__(self, o): return self._bin(o, 'xor')
    def __rxor__(self, o): return self._bin(o, 'xor', True)
    def __lshift__(self, o): return self._bin(o, 'shl')
    def __rlshift__(self, o): return self._bin(o, 'shl', True)
    def __rshift__(self, o): return self._bin(o, 'shr')
    def __rrshift__(self, o): return self._bin(o, 'shr', True)
    def __mod__(self, o): return self._bin(o, 'mod')
    def __rmod__(self, o): return self._bin(o, 'mod', True)
    def __floordiv__(self, o): return self._bin(o, 'div')
    def __rfloordiv__(self, o): return self._bin(o, 'div', True)

    def __truediv__(self, o):
        if self._coerce(o) is NotImplemented:
            return NotImplemented
        return SymRatio(self, o)

    def __rtruediv__(self, o):
        if self._coerce(o) is NotImplemented:
            return NotImplemented
        return SymRatio(o, self)

    def __pow__(self, o, m=None):
        if m is None and type(o) is int and 0 <= o <= 4:
            r = 1
            for _ in range(o):
                r = r * self
            return r
        raise EngineLimit('sym ** x')

    def __rpow__(self, o, m=None):
        if m is None and type(o) is int and o == 2:
            r = 1 << self
            if type(r) is SymInt:
                r.p2 = True
            return r
        raise EngineLimit('x ** sym')

    def __neg__(self):
        return 0 - self

    def __pos__(self):
        return self

    def __invert__(self):
        return -1 - self

    def __abs__(self):
        if self.lo >= 0:
            return self
        w = bits_for(self.lo, self.hi) + 1
        e = ext(self.e, w)
        hi = max(abs(self.lo), abs(self.hi))
        lo = 0 if self.hi >= 0 else min(abs(self.lo), abs(self.hi))
        return mk(z3.If(e < 0, -e, e), lo, hi)

    def bit_length(self):
        if self.lo < 0:
            raise EngineLimit('bit_length of possibly negative value')
        w = self.e.size()
        n = self.hi.bit_length()
        ow = n.bit_length() + 1
        r = z3.BitVecVal(0, ow)
        for i in range(n):
            r = z3.If(z3.Extract(i, i, self.e) == 1, z3.BitVecVal(i + 1, ow), r)
        return mk(r, self.lo.bit_length(), n)

    def _cmp(self, o, op):
        c = self._coerce(o)
        if c is NotImplemented:
            return NotImplemented
        e2, lo2, hi2 = c
        lo1, hi1 = self.lo, self.hi
        if op == 'eq':
            if hi2 < lo1 or lo2 > hi1:
                return False
        elif op == 'ne':
            if hi2 < lo1 or lo2 > hi1:
                return True
        elif op == 'lt':
            if hi1 < lo2:
                return True
            if lo1 >= hi2:
                return False
        elif op == 'le':
            if hi1 <= lo2:
                return True
            if lo1 > hi2:
                return False
        elif op == 'gt':
            if lo1 > hi2:
                return True
            if hi1 <= lo2:
                return False
        elif op == 'ge':
            if lo1 >= hi2:
                return True
            if hi1 < lo2:
                return False
        w = max(bits_for(lo1, hi1), bits_for(lo2, hi2))
        a = ext(self.e, w)
        b = z3.BitVecVal(lo2, w) if e2 is None else ext(e2, w)
        if op == 'eq':
            return mkbool(a == b)
        if op == 'ne':
            return mkbool(a != b)
        if op == 'lt':
            return mkbool(a < b)
        if op == 'le':
            return mkbool(a <= b)
        if op == 'gt':
            return mkbool(a > b)
        return mkbool(a >= b)

    def __eq__(self, o):
        r = self._cmp(o, 'eq')
        return False if r is NotImplemented else r

    def __ne__(self, o):
        r = self._cmp(o, 'ne')
        return True if r is NotImplemented else r

    def __lt__(self, o): return self._cmp(o, 'lt')
    def __le__(self, o): return self._cmp(o, 'le')
    def __gt__(self, o): return self._cmp(o, 'gt')
    def __ge__(self, o): return self._cmp(o, 'ge')

    def __bool__(self):
        return bool(self != 0)

    def concretize(self):
        return CTX.choose(self.e)

    def __index__(self):
        return self.concretize()

    __int__ = __index__

    def __hash__(self):
        return hash(self.concretize())

    def __format__(self, spec):
        return format(self.concretize(), spec)

    def __repr__(self):
        return 'SymInt[%d,%d]' % (self.lo, self.hi)


class SymRatio:
    """exact rational a/b produced by true division; only int() (truncation) is supported.
    Models float division followed by int(): exact for 32-bit operands (see lemma fp_div_trunc)."""
    __slots__ = ('a', 'b')

    def __init__(self, a, b):
        self.a = a
        self.b = b

    def trunc(self):
        a, b = self.a, self.b
        if bool(b == 0):
            raise modelled(ZeroDivisionError('division by zero'))
        return exact_div(a, b, floor=False)

    def __int__(self):
        raise EngineLimit('builtin int() on SymRatio (module int not rebound)')


def _parts(x):
    t = type(x)
    if t is SymInt:
        return x.e, x.lo, x.hi
    if t is SymBool:
        return z3.If(x.e, z3.BitVecVal(1, 2), z3.BitVecVal(0, 2)), 0, 1
    x = builtins.int(x)
    return None, x, x


def exact_div(a, b, floor=True):
    """a / b on (Sym)ints, b known non-zero on this path; floor (Python //) or trunc toward zero.
    Shared normalising constructor (used by the engine and by the oracle)."""
    ea, la, ha = _parts(a)
    eb, lb, hb = _parts(b)
    if ea is None and eb is None:
        if floor:
            return la // lb
        q = abs(la) // abs(lb)
        return q if (la < 0) == (lb < 0) else -q
    m = max(abs(la), abs(ha))
    w = max(bits_for(la, ha), bits_for(lb, hb), bits_for(-m, m)) + 1
    xa = z3.BitVecVal(la, w) if ea is None else ext(ea, w)
    xb = z3.BitVecVal(lb, w) if eb is None else ext(eb, w)
    q = xa / xb  # bvsdiv: truncation toward zero
    if floor:
        r = z3.SRem(xa, xb)
        q = z3.If(z3.And(r != 0, (r < 0) != (xb < 0)), q - 1, q)
    return mk(q, -m - 1, m + 1)


def _trailing_zeros(e):
    """number of low bits of the term that are syntactically zero (x << k after simplification is Concat(.., 0_k))"""
    if z3.is_bv_value(e):
        v = e.as_long()
        return e.size() if v == 0 else (v & -v).bit_length() - 1
    if z3.is_app(e) and e.decl().kind() == z3.Z3_OP_CONCAT:
        last = e.arg(e.num_args() - 1)
        if z3.is_bv_value(last) and last.as_long() == 0:
            return last.size()
    return 0


def _disjoint_join(xa, la, ha, xb, lb, hb, w):
    """(x << k) | y with 0 <= y < 2^k is the concatenation x:y -- build it as such, so that a field assembled by the
    code with chain() is the same term as the oracle's concatenation of the encoding fields"""
    if la < 0 or lb < 0:
        return None
    for p, q, qh in ((xa, xb, hb), (xb, xa, ha)):
        ps = z3.simplify(p)
        k = _trailing_zeros(ps)
        if 0 < k < w and qh < (1 << k):
            return z3.Concat(z3.Extract(w - 1, k, ps), z3.Extract(k - 1, 0, q))
    return None


def arith(kind, a, b):
    (ea, la, ha), (eb, lb, hb) = a, b
    if kind == 'add':
        lo, hi = la + lb, ha + hb
    elif kind == 'sub':
        lo, hi = la - hb, ha - lb
    elif kind == 'mul':
        cs = [la * lb, la * hb, ha * lb, ha * hb]
        lo, hi = min(cs), max(cs)
    elif kind in ('and', 'or', 'xor'):
        if la >= 0 and lb >= 0:
            if kind == 'and':
                lo, hi = 0, min(ha, hb)
            else:
                m = (1 << max(ha.bit_length(), hb.bit_length())) - 1
                lo, hi = 0, m
                if kind == 'or':
                    lo = max(la, lb)
        elif kind == 'and' and (la >= 0 or lb >= 0):
            lo, hi = 0, (ha if la >= 0 else hb)
        else:
            w = max(bits_for(la, ha), bits_for(lb, hb))
            lo, hi = -(1 << (w - 1)), (1 << (w - 1)) - 1
    elif kind in ('shl', 'shr'):
        if lb < 0:
            if CTX.branch(ext(eb, bits_for(lb, hb)) < 0):
                raise modelled(ValueError('negative shift count'))
            lb = 0
            if hb < 0:
                raise modelled(ValueError('negative shift count'))
        if kind == 'shl':
            if hb > 64 and eb is not None:
                # interval arithmetic lost the bound on the shift count: ask the solver (sound under the current
                # path condition) for a small power-of-two bound
                wb = bits_for(lb, hb)
                xbq = ext(eb, wb)
                for kbits in (3, 4, 5, 6, 8, 12):
                    if (1 << kbits) - 1 >= hb:
                        break
                    if CTX.check(xbq >= z3.BitVecVal(1 << kbits, wb)) == z3.unsat:
                        hb = (1 << kbits) - 1
                        break
            if hb > 4096:
                raise EngineLimit('shift count up to %d' % hb)
            lo, hi = min(la << lb, la << hb), max(ha << lb, ha << hb)
        else:
            lo, hi = min(la >> lb, la >> hb), max(ha >> lb, ha >> hb)
    elif kind == 'mod':
        if eb is None:
            if lb == 0:
                raise modelled(ZeroDivisionError('integer modulo by zero'))
            if lb > 0:
                lo, hi = 0, lb - 1
            else:
                lo, hi = lb + 1, 0
        else:
            if lb <= 0 <= hb:
                if CTX.branch(ext(eb, bits_for(lb, hb)) == 0):
                    raise modelled(ZeroDivisionError('integer modulo by zero'))
            m = max(abs(lb), abs(hb))
            lo, hi = -(m - 1) if lb < 0 else 0, (m - 1) if hb > 0 else 0
    elif kind == 'div':
        if eb is None and lb == 0:
            raise modelled(ZeroDivisionError('integer division by zero'))
        if eb is not None and lb <= 0 <= hb:
            if CTX.branch(ext(eb, bits_for(lb, hb)) == 0):
                raise modelled(ZeroDivisionError('integer division by zero'))
        if not (eb is None and lb > 0 and lb & (lb - 1) == 0):
            return exact_div(la if ea is None else SymInt(ea, la, ha),
                             lb if eb is None else SymInt(eb, lb, hb), floor=True)
        lo, hi = la // lb, ha // lb
    else:
        raise EngineLimit(kind)
    w = max(bits_for(lo, hi), bits_for(la, ha), bits_for(lb, hb)) + 1
    if w > MAX_WIDTH:
        raise EngineLimit('width %d' % w)
    xa = z3.BitVecVal(la, w) if ea is None else ext(ea, w)
    xb = z3.BitVecVal(lb, w) if eb is None else ext(eb, w)
    if kind == 'add':
        e = xa + xb
    elif kind == 'sub':
        e = xa - xb
    elif kind == 'mul':
        e = xa * xb
    elif kind == 'and':
        e = xa & xb
    elif kind == 'or':
        e = _disjoint_join(xa, la, ha, xb, lb, hb, w)
        if e is None:
            e = xa | xb
    elif kind == 'xor':
        e = xa ^ xb
    elif kind == 'shl':
        e = xa << xb
    elif kind == 'shr':
        e = xa >> xb
    elif kind == 'mod':
        if eb is None and lb > 0 and lb & (lb - 1) == 0:
            e = xa & z3.BitVecVal(lb - 1, w)
        else:
            e = z3.SRem(xa, xb)
            e = z3.If(z3.And(e != 0, (e < 0) != (xb < 0)), e + xb, e)
    elif kind == 'div':
        e = xa >> z3.BitVecVal(lb.bit_length() - 1, w)
    return mk(e, lo, hi)


# ---------------------------------------------------------------------------
# conversions used by stubs, summaries and harnesses
# ---------------------------------------------------------------------------

class _IntMeta(type):
    def __instancecheck__(cls, o):
        return isinstance(o, builtins.int)

    def __subclasscheck__(cls, c):
        return issubclass(c, builtins.int)


class sym_int(metaclass=_IntMeta):
    """replacement for builtin int inside armulator modules (works as a callable and in isinstance)"""

    def __new__(cls, x=0, *a):
        t = type(x)
        if t is SymInt:
            return x
        if t is SymBool:
            return x._int()
        if t is SymRatio:
            return x.trunc()
        return builtins.int(x, *a)


def is_sym(x):
    t = type(x)
    return t is SymInt or t is SymBool


def to_bv(x, w):
    """python value (int / SymInt / SymBool / bool) -> z3 BitVec of width w (two's complement, truncating)."""
    t = type(x)
    if t is SymInt:
        return ext(x.e, w)
    if t is SymBool:
        return z3.If(x.e, z3.BitVecVal(1, w), z3.BitVecVal(0, w))
    return z3.BitVecVal(builtins.int(x), w)


def in_range(x, w):
    """z3 Bool: x is representable as an unsigned w-bit number."""
    t = type(x)
    if t is SymInt:
        if x.lo >= 0 and x.hi < (1 << w):
            return z3.BoolVal(True)
        ww = max(bits_for(x.lo, x.hi), w + 2)
        e = ext(x.e, ww)
        return z3.And(e >= 0, e < z3.BitVecVal(1 << w, ww))
    if t is SymBool:
        return z3.BoolVal(True)
    if t is bool or t is int:
        return z3.BoolVal(0 <= builtins.int(x) < (1 << w))
    return z3.BoolVal(False)


def var(name, bits):
    return SymInt.var(name, bits)


def boolvar(name):
    return SymBool(z3.Bool(name))


def assume(c):
    """c: python bool / SymBool / z3 Bool"""
    if type(c) is bool:
        if not c:
            raise PathAbort()
        return
    if type(c) is SymBool:
        c = c.e
    CTX.assume(c)
