"""Merged (fork-free) z3 versions of hot leaf helpers ("summaries").

Each summary is the oracle function for that helper; the equivalence real-helper == summary is
re-proved on every run (vf/lemmas.py) before a check may use it.  ``install(ok)`` rebinds only the
summaries whose lemma holds (ok[name] is True); with ok=None everything is installed (lemma runs
themselves use summaries=False).  Summaries apply only inside their proven domain (guards below);
outside it the original function runs.
"""
import sys

import z3

from spec import pseudo as P
from spec import state as ST
from . import core
from .core import SymInt, SymBool, to_bv, U, mk, ext, bits_for, sym_int, tobool, mkbool

ORIG = {}
_active = {}

MODES = {'usr': 0b10000, 'fiq': 0b10001, 'irq': 0b10010, 'svc': 0b10011, 'mon': 0b10110, 'abt': 0b10111,
         'hyp': 0b11010, 'und': 0b11011, 'sys': 0b11111}


def sym_ite(c, a, b):
    """exact integer if-then-else over (Sym)ints; c: z3 Bool"""
    c = z3.simplify(c)
    if z3.is_true(c):
        return a
    if z3.is_false(c):
        return b
    ea, la, ha = core._parts(a)
    eb, lb, hb = core._parts(b)
    lo, hi = min(la, lb), max(ha, hb)
    w = bits_for(lo, hi)
    xa = z3.BitVecVal(la, w) if ea is None else ext(ea, w)
    xb = z3.BitVecVal(lb, w) if eb is None else ext(eb, w)
    return mk(z3.If(c, xa, xb), lo, hi)


# ---------------------------------------------------------------------------
# register banking (ARM ARM B1.3.2, table B1-2)
# ---------------------------------------------------------------------------

def bank_candidates(n, have_sec, have_virt):
    """for register number n (0..14): ordered list of (RName member name, [modes]) ; last entry modes=None = default"""
    if n <= 7:
        return [('R%dusr' % n, None)]
    if n <= 12:
        return [('R%dfiq' % n, [MODES['fiq']]), ('R%dusr' % n, None)]
    if n == 13:
        c = [('SPfiq', [MODES['fiq']]), ('SPirq', [MODES['irq']]), ('SPsvc', [MODES['svc']]),
             ('SPabt', [MODES['abt']]), ('SPund', [MODES['und']])]
        if have_sec:
            c.append(('SPmon', [MODES['mon']]))
        if have_virt:
            c.append(('SPhyp', [MODES['hyp']]))
        return c + [('SPusr', None)]
    c = [('LRfiq', [MODES['fiq']]), ('LRirq', [MODES['irq']]), ('LRsvc', [MODES['svc']]), ('LRabt', [MODES['abt']]),
         ('LRund', [MODES['und']])]
    if have_sec:
        c.append(('LRmon', [MODES['mon']]))
    return c + [('LRusr', None)]


def bank_select(N, M, have_sec, have_virt, nmax=14):
    """list of (member name, z3 cond) -- conditions are mutually exclusive and cover n in 0..nmax"""
    out = []
    for i in range(nmax + 1):
        rest = z3.BoolVal(True)
        for name, modes in bank_candidates(i, have_sec, have_virt):
            if modes is None:
                cnd = z3.And(N == i, rest)
            else:
                mc = z3.Or(*[M == m for m in modes])
                cnd = z3.And(N == i, rest, mc)
                rest = z3.And(rest, z3.Not(mc))
            out.append((name, z3.simplify(cnd)))
    return out


def _cfg():
    from armulator.armv6 import configurations as C
    return bool(C.have_security_ext()), bool(C.have_virt_ext())


def _small(x, hi):
    t = type(x)
    if t is int:
        return 0 <= x <= hi
    if t is SymInt:
        return x.lo >= 0 and x.hi <= hi
    return False


def _all32(vals):
    for v in vals:
        t = type(v)
        if t is int:
            if not (0 <= v <= 0xFFFFFFFF):
                return False
        elif t is SymInt:
            if v.lo < 0 or v.hi > 0xFFFFFFFF:
                return False
        else:
            return False
    return True


def _rdict(self, names=None):
    from armulator.armv6.registers import RName
    return {k.name: to_bv(v, 32) for k, v in self._R.items() if names is None or k.name in names}


def refine(x, hi):
    """x if it is known (by interval, else by one solver query under the path condition) to lie in [0, hi];
    returns the value with a tightened interval, or None"""
    t = type(x)
    if t is int:
        return x if 0 <= x <= hi else None
    if t is not SymInt:
        return None
    if x.lo >= 0 and x.hi <= hi:
        return x
    w = bits_for(min(x.lo, 0), max(x.hi, hi))
    e = ext(x.e, w)
    bad = z3.Or(e < 0, e > z3.BitVecVal(hi, w))
    if core.CTX.check(bad) != z3.unsat:
        return None
    return mk(e, max(x.lo, 0), min(x.hi, hi))


def s_get_rmode(self, n, mode):
    if type(n) is int and type(mode) is int:
        return ORIG['get_rmode'](self, n, mode)
    n0, m0 = n, mode
    n, mode = refine(n, 14), refine(mode, 31)
    if n is None or mode is None:
        return ORIG['get_rmode'](self, n0, m0)
    from armulator.armv6.registers import RName
    hs, hv = _cfg()
    if _all32(self._R.values()):
        # shared term construction with the oracle (spec.state.bank_get)
        nn = n if type(n) is int else to_bv(n, 4)
        return U(ST.bank_get(_rdict(self), nn, to_bv(mode, 5), hs, hv), 32)
    N, M = to_bv(n, 5), to_bv(mode, 6)
    res = None
    for name, c in bank_select(N, M, hs, hv):
        if z3.is_false(c):
            continue
        v = self._R[RName[name]]
        res = v if res is None else sym_ite(c, v, res)
    return res


def s_set_rmode(self, n, mode, value):
    if type(n) is int and type(mode) is int:
        return ORIG['set_rmode'](self, n, mode, value)
    n0, m0 = n, mode
    n, mode = refine(n, 14), refine(mode, 31)
    if n is None or mode is None:
        return ORIG['set_rmode'](self, n0, m0, value)
    from armulator.armv6.registers import RName
    hs, hv = _cfg()
    if _all32(self._R.values()) and _all32([value]):
        R = _rdict(self)
        before = dict(R)
        nn = n if type(n) is int else to_bv(n, 4)
        V = to_bv(value, 32)
        if not z3.is_bv_value(V):
            ST.WRITES_IMPL.append(V)
        ST.bank_set(R, nn, to_bv(mode, 5), V, None, hs, hv)
        for name, t in R.items():
            if t is not before[name]:
                self._R[RName[name]] = U(t, 32)
        return
    N, M = to_bv(n, 5), to_bv(mode, 6)
    for name, c in bank_select(N, M, hs, hv):
        if z3.is_false(c):
            continue
        k = RName[name]
        self._R[k] = sym_ite(c, value, self._R[k])


def s_get(self, n):
    if type(n) is int:
        if n == 15:
            return ORIG['get'](self, n)
        return s_get_rmode(self, n, self.cpsr.m)
    n0 = n
    n = refine(n, 15)
    if n is None:
        return ORIG['get'](self, n0)
    if type(n) is int:
        return s_get(self, n)
    pcv = ORIG['get'](self, 15)
    if n.lo == 15:
        return pcv
    N = to_bv(n, 5)
    if n.hi == 15:
        nn = mk(z3.If(N == 15, z3.BitVecVal(0, 5), N), 0, 14)
        if _all32(self._R.values()) and _all32([pcv]):
            hs, hv = _cfg()
            r = ST.bank_get(_rdict(self), to_bv(n, 4), to_bv(self.cpsr.m, 5), hs, hv)
            return U(z3.If(to_bv(n, 4) == 15, to_bv(pcv, 32), r), 32)
        r = s_get_rmode(self, nn, self.cpsr.m)
        return sym_ite(N == 15, pcv, r)
    return s_get_rmode(self, n, self.cpsr.m)


def s_set(self, n, value):
    if type(n) is int:
        self.changed_registers[n] = True
        return s_set_rmode(self, n, self.cpsr.m, value)
    n0 = n
    n = refine(n, 14)
    if n is None:
        return ORIG['set'](self, n0, value)
    if type(n) is int:
        return s_set(self, n, value)
    N = to_bv(n, 5)
    for i in range(n.lo, n.hi + 1):
        old = self.changed_registers[i]
        self.changed_registers[i] = mkbool(z3.Or(tobool(old), N == i))
    s_set_rmode(self, n, self.cpsr.m, value)


_SPSR_ATTR = [('fiq', 'spsr_fiq'), ('irq', 'spsr_irq'), ('svc', 'spsr_svc'), ('mon', 'spsr_mon'), ('abt', 'spsr_abt'),
              ('hyp', 'spsr_hyp'), ('und', 'spsr_und')]


def _spsr_modes():
    hs, hv = _cfg()
    out = []
    for k, attr in _SPSR_ATTR:
        if k == 'mon' and not hs:
            continue
        if k == 'hyp' and not hv:
            continue
        out.append((MODES[k], attr))
    return out


def s_get_spsr(self):
    m = self.cpsr.m
    if type(m) is int:
        return ORIG['get_spsr'](self)
    M = to_bv(m, 6)
    res = 0  # user/system/bad mode: UNPREDICTABLE, the code returns 0
    for mode, attr in _spsr_modes():
        res = sym_ite(M == mode, getattr(self, attr), res)
    core.CTX.event('summary', 'get_spsr')
    return res


def s_set_spsr(self, value):
    m = self.cpsr.m
    if type(m) is int:
        return ORIG['set_spsr'](self, value)
    M = to_bv(m, 6)
    for mode, attr in _spsr_modes():
        setattr(self, attr, sym_ite(M == mode, value, getattr(self, attr)))


def _mode_pred(pred):
    def f(self):
        m = self.cpsr.m
        if type(m) is int:
            return ORIG[pred](self)
        m = refine(m, 31)
        if m is None:
            return ORIG[pred](self)
        M = to_bv(m, 5)
        if pred == 'current_mode_is_not_user':
            return mkbool(M != MODES['usr'])
        if pred == 'current_mode_is_hyp':
            return mkbool(M == MODES['hyp'])
        return mkbool(z3.Or(M == MODES['usr'], M == MODES['sys']))
    f.__name__ = 's_' + pred
    return f


s_current_mode_is_not_user = _mode_pred('current_mode_is_not_user')
s_current_mode_is_hyp = _mode_pred('current_mode_is_hyp')
s_current_mode_is_user_or_system = _mode_pred('current_mode_is_user_or_system')


def s_bad_mode(self, mode):
    if type(mode) is int:
        return ORIG['bad_mode'](self, mode)
    m = refine(mode, 31)
    if m is None:
        return ORIG['bad_mode'](self, mode)
    hs, hv = _cfg()
    M = to_bv(m, 5)
    ok = [M == MODES[k] for k in ('usr', 'fiq', 'irq', 'svc', 'abt', 'und', 'sys')]
    if hs:
        ok.append(M == MODES['mon'])
    if hv:
        ok.append(M == MODES['hyp'])
    return mkbool(z3.Not(z3.Or(*ok)))


def s_condition_passed(self):
    cond = self.current_cond()
    if type(cond) is int and not core.is_sym(self.registers.cpsr.value):
        return ORIG['condition_passed'](self)
    v = to_bv(self.registers.cpsr.value, 32)
    n, zf, c, vf = [z3.Extract(i, i, v) == 1 for i in (31, 30, 29, 28)]
    return mkbool(P.condition_holds(to_bv(cond, 4), n, zf, c, vf))


# ---------------------------------------------------------------------------
# bits_ops / shift
# ---------------------------------------------------------------------------

def s_to_signed(bits, length):
    if type(bits) is not SymInt or type(length) is not int or bits.lo < 0 or bits.hi >= (1 << length):
        return ORIG['to_signed'](bits, length)
    e = to_bv(bits, length)
    return mk(z3.SignExt(1, e), -(1 << (length - 1)), (1 << (length - 1)) - 1)


def s_add_with_carry(x, y, carry_in, size=32):
    if type(size) is not int or not (_small(x, (1 << size) - 1) and _small(y, (1 << size) - 1)
                                     and (type(carry_in) in (bool, SymBool) or _small(carry_in, 1))) \
            or not (core.is_sym(x) or core.is_sym(y) or core.is_sym(carry_in)):
        return ORIG['add_with_carry'](x, y, carry_in, size)
    r, c, o = P.add_with_carry(to_bv(x, size), to_bv(y, size), to_bv(carry_in, 1))
    return U(r, size), U(P.bv(c, 1), 1), U(P.bv(o, 1), 1)


def _kind(type_o):
    from armulator.armv6.shift import SRType
    return {SRType.LSL: 0, SRType.LSR: 1, SRType.ASR: 2, SRType.ROR: 3, SRType.RRX: 4}[type_o]


def s_shift_c(value, value_len, type_o, amount, carry_in):
    if value_len != 32 or not _small(value, 0xFFFFFFFF) or not _small(amount, 255) or \
            not (type(carry_in) in (bool, SymBool) or _small(carry_in, 1)) or \
            not (core.is_sym(value) or core.is_sym(amount)):
        return ORIG['shift_c'](value, value_len, type_o, amount, carry_in)
    k = _kind(type_o)
    if k == 4:
        if not (type(amount) is int and amount == 1):
            return ORIG['shift_c'](value, value_len, type_o, amount, carry_in)
    r, c = P.shift_c(to_bv(value, 32), k, to_bv(amount, 9), to_bv(carry_in, 1) == 1)
    return U(r, 32), U(P.bv(c, 1), 1)


def s_shift(value, value_len, type_o, amount, carry_in):
    return s_shift_c(value, value_len, type_o, amount, carry_in)[0]


def s_signed_sat_q(i, n):
    if type(i) is not SymInt or type(n) is not int or n < 1 or n > 64:
        return ORIG['signed_sat_q'](i, n)
    w = max(bits_for(i.lo, i.hi), n + 1)
    r, s = P.signed_sat_q(ext(i.e, w), n)
    return U(r, n), mkbool(s)


def s_unsigned_sat_q(i, n):
    if type(i) is not SymInt or type(n) is not int or n < 0 or n > 64:
        return ORIG['unsigned_sat_q'](i, n)
    if n == 0:
        return ORIG['unsigned_sat_q'](i, n)
    w = max(bits_for(i.lo, i.hi), n + 2)
    r, s = P.unsigned_sat_q(ext(i.e, w), n)
    return U(r, n), mkbool(s)


def s_lowest_set_bit_ref(x, length=32):
    if type(x) is not SymInt or type(length) is not int or x.lo < 0 or x.hi >= (1 << length):
        return ORIG['lowest_set_bit_ref'](x, length)
    return U(P.lowest_set_bit(to_bv(x, length)), 8)


# name -> (kind, owner spec, attribute, replacement)
def _table():
    from armulator.armv6 import bits_ops, shift
    from armulator.armv6.registers import Registers
    from armulator.armv6.arm_v6 import ArmV6
    return {
        'to_signed': ('func', bits_ops, 'to_signed', s_to_signed),
        'add_with_carry': ('func', bits_ops, 'add_with_carry', s_add_with_carry),
        'signed_sat_q': ('func', bits_ops, 'signed_sat_q', s_signed_sat_q),
        'unsigned_sat_q': ('func', bits_ops, 'unsigned_sat_q', s_unsigned_sat_q),
        'lowest_set_bit_ref': ('func', bits_ops, 'lowest_set_bit_ref', s_lowest_set_bit_ref),
        'shift_c': ('func', shift, 'shift_c', s_shift_c),
        'shift': ('func', shift, 'shift', s_shift),
        'get_rmode': ('method', Registers, 'get_rmode', s_get_rmode),
        'set_rmode': ('method', Registers, 'set_rmode', s_set_rmode),
        'get': ('method', Registers, 'get', s_get),
        'set': ('method', Registers, 'set', s_set),
        'get_spsr': ('method', Registers, 'get_spsr', s_get_spsr),
        'set_spsr': ('method', Registers, 'set_spsr', s_set_spsr),
        'condition_passed': ('method', ArmV6, 'condition_passed', s_condition_passed),
        'current_mode_is_not_user': ('method', Registers, 'current_mode_is_not_user', s_current_mode_is_not_user),
        'current_mode_is_hyp': ('method', Registers, 'current_mode_is_hyp', s_current_mode_is_hyp),
        'current_mode_is_user_or_system': ('method', Registers, 'current_mode_is_user_or_system',
                                           s_current_mode_is_user_or_system),
        'bad_mode': ('method', Registers, 'bad_mode', s_bad_mode),
    }


NAMES = ['to_signed', 'add_with_carry', 'signed_sat_q', 'unsigned_sat_q', 'lowest_set_bit_ref', 'shift_c', 'shift',
         'get_rmode', 'set_rmode', 'get', 'set', 'get_spsr', 'set_spsr', 'condition_passed',
         'current_mode_is_not_user', 'current_mode_is_hyp', 'current_mode_is_user_or_system', 'bad_mode']


def _save_originals(tab):
    for name, (kind, owner, attr, rep) in tab.items():
        if name not in ORIG:
            ORIG[name] = getattr(owner, attr)


def install(ok=None):
    """install summaries whose lemma holds (ok: dict name->bool, or None = all)"""
    import armulator.armv6.arm_v6  # noqa
    tab = _table()
    _save_originals(tab)
    uninstall()
    for name, (kind, owner, attr, rep) in tab.items():
        if ok is not None and not ok.get(name, False):
            continue
        orig = ORIG[name]
        if kind == 'method':
            setattr(owner, attr, rep)
        else:
            for mname, mod in list(sys.modules.items()):
                if mname.startswith('armulator') and mod is not None:
                    for k, v in list(vars(mod).items()):
                        if v is orig:
                            setattr(mod, k, rep)
        _active[name] = True


def uninstall():
    if not ORIG:
        return
    tab = _table()
    for name in list(_active):
        kind, owner, attr, rep = tab[name]
        orig = ORIG[name]
        if kind == 'method':
            setattr(owner, attr, orig)
        else:
            for mname, mod in list(sys.modules.items()):
                if mname.startswith('armulator') and mod is not None:
                    for k, v in list(vars(mod).items()):
                        if v is rep:
                            setattr(mod, k, orig)
        _active.pop(name)


def active():
    return sorted(_active)
