"""placeholder, filled below"""


def install(lemma_ok=None):
    pass


def uninstall():
    pass
